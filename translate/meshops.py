#!/venv/bin/python
"""Translator: the high-level refinement drivers of `src/mesh.py` (ast) -> lean/Stbem/Gen/MeshOps.lean
(Mathlib-free, executable; imports the hand-written A-layer model `Stbem.Model.Mesh`).

Generated from the *bodies* of
  * `Mesh.refine_time`, `Mesh.refine_space`, `Mesh.refine`             -> `Stbem.Gen.MeshOps.refine_time` ...
  * `Mesh.uniform_refine`, `Mesh.uniform_refine_space`                 -> `uniform_refine`, `uniform_refine_space`
  * `Mesh.dorfler_refine_isotropic`, `Mesh.dorfler_refine_anisotropic` -> same names
  * `Mesh.refine_grading`                                              -> `refine_grading_sweep` (one pass of the `while`
                                                                          loop) and `refine_grading` (fuel recursion)
  * function `Prolongate`                                              -> `Prolongate_climb`, `Prolongate`
  * `MeshParametrized.__init__`                                        -> `MeshParametrized_init`

Every statement of these bodies is translated, in the order of the source, into a Lean `do` block in the monad
`Except String` (`for` -> `for`, `break`/`continue` -> the same, `assert` -> `assertThat … "assert:<tag>"`, mutation of a
local -> `let mut`/`:=`, `print` -> nothing).  What is NOT translated but bound to the hand-written model is the OBJECT
MODEL (trusted, written into the header of the generated file, validated by the correspondence runs in which the driver
answers every mesh request with the generated functions as well):

  * `self` (a `Mesh` object)            = a value of `Stbem.Mesh.Mesh`, threaded through every call that refines;
  * an `Element` reference              = the `Cell` of its immutable fields (coordinates, levels, index, parent index,
                                          piece); its identity is `Cell.id`;  in `Prolongate` = the index alone;
  * `list(self.leaf_elements)`          = `self.leaves` (same order);
  * `elem.level_time/level_space`       = `elem.lt/lx`;  `elem.h_t/h_x` = `elem.t1 - elem.t0` / `elem.x1 - elem.x0`
                                          (`Element.__init__` asserts `t0 < t1`, `x0 < x1`, so the `abs` is the identity);
  * `self.refine_axis(elem, ax)`        = external `refineAxisCall`: the model's `refineId self elem.id ax`, returning
                                          the two children as cells (tied to the pointer code by Props/C10H.lean);
  * `elem.children` in a boolean test   = `hasChildren self elem`: the element is no longer in the leaf collection
                                          (`refine_axis` pops it from `leaf_elements` when it sets `children`);
  * `elem.children` as a value          = `childrenOf self elem ax`: the entry of the parent table `self.kids` for
                                          `elem.id`, as the two cells `children n elem ax`; `ax` is the axis of the ONLY
                                          kind of `refine_*` call issued before the read in the function (the element was
                                          a leaf when the function took its snapshot of `leaf_elements`); an `if` that
                                          tests `elem.children` and reads its value tests this lookup;
  * `elem.parent` (`Prolongate`)        = `parentOf self id` (`self` = the mesh the elements belong to, an additional input);
  * `{k: v for v, k in enumerate(l)}`   = `dictOfEnumerate l`: the insertions in order, lookup = the LAST one (as Python);
  * `sorted(l, key=λ)`, `l.sort(key=λ)` = the model's stable insertion sort `sortBy` with `decide (key a < key b)`
                                          (`reverse=True`: `>`);
  * `np.argsort(x)`                     = an INPUT index list (universally quantified in the theorems);
  * `np.sum(x)`                         = `sumQ x`; for an `(N,2)` array `sumQ (x.map fun p => p.1 + p.2)`;
  * `np.zeros(n)`                       = `List.replicate n 0`; `v[j] = e` = `listSet v j e`;
  * an `(N,2)` array                    = a list of pairs; `x[:, k]` its k-th column; `x.shape == (n, 2)` = `x.length = n`;
  * `h_x**sigma` with `sigma = p/q`     = comparisons `a ⋈ b**sigma` are decided as `a^q ⋈ b^p` (exact for `a, b ≥ 0`);
  * `marked = [[], []]`, `marked[i]`    = a pair of lists; a variable index must be `0` or `1` (else `IndexError`);
  * `l[i]`, `l[-1]`                     = `getIdx l i`, `getLast l` (`IndexError` -> `.error "index"`);
  * integer `a - b ⋈ c`                 = `a ⋈ c + b` (no truncated subtraction);
  in `MeshParametrized.__init__` only:
  * `gamma_space`                       = the record (`closed`, `pw_start`, `gamma_length`); `gamma_space.pw_gamma[i]` =
                                          the piece index `i` (`Cell.piece`; `len(pw_gamma) = len(pw_start) - 1` is the
                                          class invariant of `PiecewiseParametrization`); `self.gamma_space = gamma_space`
                                          stores the same record;
  * `super().__init__(…)`               = the model's `init` (`Mesh.__init__` is outside the translated fragment; the
                                          C02 correspondence ties it);
  * `self.roots`                        = `self.leaves` as long as nothing has been refined (checked);
  * `self.vertices`, `vtx.t`, `vtx.x`   = `self.verts` (pairs `(t, x)`); `self.glue_space` = `self.glue`;
  * `elem.vertices[k].x/.t`             = the coordinate of the k-th corner in the order of `Element.__init__`;
  * `elem.gamma_space` of a root        = a loop-local optional piece index, `None` at first (`Element.__init__`, checked);
                                          the assignment also stores the piece in the leaf (`setPiece`);
  * `if x is None: x = d`               = the default of an optional argument;
  * a chained comparison `a <= b < c[i]`= nested `if`s: `c[i]` is evaluated only when `a <= b` holds (as Python);
  * a comprehension whose condition reads an index expression = the loop it abbreviates.

Supported Python fragment (anything else raises TranslationError = broken obligation; nothing is guessed or defaulted):
  statements : docstring, `print(...)`, `x = e`, `x += e`, `l.append(e)`, `l.extend(e)`, `l.sort(key=λ[, reverse=True])`,
               `marked[i].append(e)`, `marked[k].sort(key=λ)`, `v[j] = e`, `assert e` (with a known label), `for pat in e:`,
               `if/elif/else`, `break`, `continue`, `return e` (last statement), calls of the `refine_*` methods and of
               `uniform_refine[_space]`, the `while a or b:` loop of `refine_grading`, a `while c:` loop that rebinds one
               variable (`Prolongate`), and in the constructor `super().__init__`, `self.gamma_space = …`,
               `elem.gamma_space = …`, `if x is None: x = d`;
  expressions: names, int literals, the float literal `0.0`, `+ - * /`, `**2`, `**sigma` inside a comparison, comparisons
               (chained), `in` / `not in` a position map, `and/or/not`, `len`, `range(len(l))`, `enumerate`,
               `list(self.leaf_elements)`, `sorted`, list comprehensions (over `zip(a, b)` or a list, with conditions),
               the position-map comprehension, tuples, `x[i]`, `x[-1]`, `x[:, k]`, `marked[k]`, `tup[k]`, `d[k]`, `np.sum`,
               `np.zeros(len(l))`, `list(reversed(np.argsort(x)))`, attributes as listed above.
"""
import ast
import os
import sys


class TranslationError(Exception):
    pass


SRC_FILE = os.path.join('src', 'mesh.py')

# labels of the assertion failures (error strings of the hand model where it has the assertion), keyed by
# (function, assertion text)
ASSERT_TAGS = {
    ('dorfler_refine_isotropic', 'len(eta_sqr) == N'): 'len',
    ('dorfler_refine_isotropic', 'cumsum >= eta_tot_sqr * theta ** 2 or len(marked) == N'): 'bulk',
    ('dorfler_refine_isotropic', 'not elem.children'): 'marked-not-leaf',
    ('dorfler_refine_anisotropic', 'eta_sqr.shape == (N, 2)'): 'len',
    ('dorfler_refine_anisotropic', 'cumsum >= eta_tot_sqr * theta ** 2 or len(marked[0]) + len(marked[1]) == 2 * N'): 'bulk',
    ('dorfler_refine_anisotropic', 'not elem.children'): 'marked-not-leaf',
    ('refine_grading', 'elem.h_t / K < elem.h_x ** sigma < K * elem.h_t'): 'window',
    ('refine_grading', 'not elem.children'): 'grading-not-leaf',
    ('Prolongate', 'elem_coarse.parent'): 'parent',
    ('Prolongate', 'elem_coarse in elem_coarse_2_idx'): 'coarse',
    ('MeshParametrized.__init__', 'isinstance(gamma_space, PiecewiseParametrization)'): None,   # dropped: typing
    ('MeshParametrized.__init__', 'initial_space_mesh[0] == 0'): 'x0',
    ('MeshParametrized.__init__', 'initial_space_mesh[-1] == gamma_space.pw_start[-1]'): 'xlast',
    ('MeshParametrized.__init__', 'elem.gamma_space'): 'piece',
    ('MeshParametrized.__init__', 'len([vtx for vtx in self.vertices if vtx.x == 0]) == len(initial_time_mesh)'): 'count-x0',
    ('MeshParametrized.__init__', 'len([vtx for vtx in self.vertices if vtx.t == 0]) == len(initial_space_mesh)'): 'count-t0',
    ('MeshParametrized.__init__', 'len([vtx for vtx in self.vertices if vtx.x == self.gamma_space.gamma_length]) == len(initial_time_mesh)'): 'count-xL',
    ('MeshParametrized.__init__', 'len([vtx for vtx in self.vertices if vtx.t == initial_time_mesh[-1]]) == len(initial_space_mesh)'): 'count-tT',
}

LEAN_KEYWORDS = {
    'at', 'do', 'then', 'else', 'if', 'fun', 'let', 'have', 'show', 'from', 'end', 'in', 'match', 'with', 'where', 'by', 'open',
    'Type', 'Prop', 'Sort', 'def', 'theorem', 'example', 'namespace', 'section', 'variable', 'universe', 'import', 'return',
    'for', 'unless', 'try', 'catch', 'finally', 'mut', 'this', 'using', 'deriving', 'instance', 'structure', 'class', 'inductive',
    'break', 'continue', 'true', 'false', 'pure', 'throw', 'abbrev', 'macro', 'syntax', 'notation', 'infix', 'prefix', 'postfix',
    'private', 'protected', 'partial', 'mutual', 'attribute', 'export', 'extends', 'fuel',
}
# names the emitted code refers to: a Python local must not capture them
RUNTIME_NAMES = {
    'assertThat', 'hasChildren', 'childrenOf', 'refineAxisRef', 'refineAxisCall', 'getIdx', 'pairAppendAt', 'sortBy', 'sumQ',
    'children', 'findLeaf', 'refineId', 'parentOf', 'Mesh', 'Cell', 'Ax', 'List', 'Rat', 'Nat', 'Bool', 'Except', 'String',
    'decide', 'a', 'b', 'p', 'q', 'x', 'k', 'dictOfEnumerate', 'dictGet', 'dictHas', 'listSet', 'enumerate', 'init', 'pieceIndex',
    'countEq', 'setPieces',
}
GENERATED_NAMES = {'refine_time', 'refine_space', 'refine', 'uniform_refine', 'uniform_refine_space', 'dorfler_refine_isotropic',
                   'dorfler_refine_anisotropic', 'refine_grading', 'refine_grading_sweep', 'Prolongate', 'Prolongate_climb',
                   'MeshParametrized_init'}


# ---- static types ---------------------------------------------------------------------------------------------------
RAT, NAT, ELEM, BOOL, MESH, SIGMA, PROP, EID = 'rat', 'nat', 'elem', 'bool', 'mesh', 'sigma', 'prop', 'eid'


def TList(t):
    return ('list', t)


def TTuple(*ts):
    return ('tuple', tuple(ts))


RATS, NATS, ELEMS, EIDS = TList(RAT), TList(NAT), TList(ELEM), TList(EID)
RATS2 = ('rats2', )                   # (N,2) array = list of pairs
DICT = ('dict', )                     # {element: position}
OPT_EID = ('opt', EID)                # `elem.parent`: an element reference or None
OPT_RATS = ('opt', RATS)              # an optional list argument (`initial_space_mesh=None`)
OPT_NAT = ('opt', NAT)                # `elem.gamma_space` of a root: a piece index or None
GAMMA = ('gamma', )                   # a PiecewiseParametrization: closed, pw_start, gamma_length, pw_gamma[i] = piece i
VTX = TTuple(RAT, RAT)                # a Vertex: (t, x)
PAIR2 = lambda t: ('pair2', t)        # noqa: E731   `[[], []]`: a pair of lists of t
UNKNOWN = None


def lean_type(t):
    if t == RAT:
        return 'Rat'
    if t in (NAT, EID):
        return 'Nat'
    if t == ELEM:
        return 'Cell'
    if t == BOOL:
        return 'Bool'
    if t == MESH:
        return 'Mesh'
    if t == RATS2:
        return 'List (Rat × Rat)'
    if isinstance(t, tuple) and t[0] == 'list':
        if t[1] is None:
            raise TranslationError('the element type of a list could not be determined')
        return 'List %s' % paren(lean_type(t[1]))
    if isinstance(t, tuple) and t[0] == 'tuple':
        return '(%s)' % ' × '.join(lean_type(x) for x in t[1])
    if isinstance(t, tuple) and t[0] == 'pair2':
        if t[1] is None:
            raise TranslationError('the element type of a list pair could not be determined')
        return '(List %s × List %s)' % (paren(lean_type(t[1])), paren(lean_type(t[1])))
    if isinstance(t, tuple) and t[0] == 'dict':
        return 'List (Nat × Nat)'
    if isinstance(t, tuple) and t[0] == 'opt':
        return 'Option %s' % paren(lean_type(t[1]))
    raise TranslationError('no Lean type for %r' % (t, ))


def paren(code):
    code = code.strip()
    if all(ch.isalnum() or ch in '_.!?' for ch in code):
        return code
    if code.startswith('(') and _matching(code) == len(code) - 1:
        return code
    if code.startswith('[') and code.endswith(']') and code.count('[') == 1:
        return code
    return '(' + code + ')'


def _matching(code):
    depth = 0
    for i, ch in enumerate(code):
        if ch == '(':
            depth += 1
        elif ch == ')':
            depth -= 1
            if depth == 0:
                return i
    return -1


class Stats:
    def __init__(self):
        self.n = {}

    def bump(self, key, k=1):
        self.n[key] = self.n.get(key, 0) + k


# ---------------------------------------------------------------------------------------------------------------------
class Source:
    def __init__(self, repo):
        import warnings
        path = os.path.join(repo, SRC_FILE)
        self.repo = repo
        self.text = open(path).read()
        with warnings.catch_warnings():
            warnings.simplefilter('ignore')
            self.tree = ast.parse(self.text)
        self.classes = {}
        self.functions = {}
        for n in self.tree.body:
            if isinstance(n, ast.ClassDef):
                if n.name in self.classes:
                    raise TranslationError('class %s defined twice' % n.name)
                self.classes[n.name] = n
            elif isinstance(n, ast.FunctionDef):
                if n.name in self.functions:
                    raise TranslationError('function %s defined twice' % n.name)
                self.functions[n.name] = n

    def seg(self, node):
        s = ast.get_source_segment(self.text, node)
        return ' '.join((s or ast.unparse(node)).split())

    def method(self, cls, name):
        if cls not in self.classes:
            raise TranslationError('class %s not found' % cls)
        found = [n for n in self.classes[cls].body if isinstance(n, ast.FunctionDef) and n.name == name]
        if len(found) != 1:
            raise TranslationError('method %s.%s not found exactly once' % (cls, name))
        if found[0].decorator_list:
            raise TranslationError('%s.%s: decorators are not supported' % (cls, name))
        return found[0]

    def check_not_overridden(self, names):
        """the translated methods of `Mesh` must be the ones a `MeshParametrized` runs: no override, no monkey patch"""
        for cname, c in self.classes.items():
            if cname == 'Mesh':
                continue
            for n in c.body:
                if isinstance(n, ast.FunctionDef) and n.name in names:
                    raise TranslationError('class %s overrides Mesh.%s' % (cname, n.name))
        for n in ast.walk(self.tree):
            if isinstance(n, ast.Call) and isinstance(n.func, ast.Name) and n.func.id in ('setattr', 'delattr'):
                raise TranslationError('module uses %s' % n.func.id)
            tg = []
            if isinstance(n, ast.Assign):
                tg = n.targets
            elif isinstance(n, (ast.AugAssign, ast.AnnAssign)):
                tg = [n.target]
            for t in tg:
                if isinstance(t, ast.Attribute) and t.attr in names:
                    raise TranslationError('attribute %s is assigned (line %d)' % (t.attr, n.lineno))


def check_refine_axis(src):
    """`refine_axis` itself is NOT translated (it is the low-level part of the hand model, tied to the pointer code by
    the H-layer refinement theorem); the binding relies on its interface only, which is checked here"""
    fn = src.method('Mesh', 'refine_axis')
    if [a.arg for a in fn.args.args] != ['self', 'elem', 'ax'] or fn.args.defaults or fn.args.vararg or fn.args.kwarg:
        raise TranslationError('refine_axis: parameters changed')
    texts = [ast.unparse(s) for s in fn.body]
    if texts[0] != 'assert 0 <= ax <= 1':
        raise TranslationError('refine_axis: first statement is `%s`' % texts[0])
    if texts[-1] != 'return elem.children' or 'elem.children = (child1, child2)' not in texts:
        raise TranslationError('refine_axis: does not return the pair `elem.children = (child1, child2)`')
    want = ['self.leaf_elements.pop(elem)', 'self.leaf_elements.setdefault(child1)', 'self.leaf_elements.setdefault(child2)']
    if [t for t in texts if t.startswith('self.leaf_elements.')] != want:
        raise TranslationError('refine_axis: update of leaf_elements changed')
    if 'assert not elem.children' not in texts:
        raise TranslationError('refine_axis: `assert not elem.children` is gone')


# ---------------------------------------------------------------------------------------------------------------------
class Var:
    def __init__(self, name, typ, decl=None):
        self.name, self.typ, self.decl = name, typ, decl   # decl: [indent, name, rhs] of a declaration awaiting its type


class Fn:
    """translator of one function body into the lines of a Lean `do` block"""
    def __init__(self, src, stats, fname, node, has_self=True):
        self.src, self.stats, self.fname, self.node = src, stats, fname, node
        self.has_self = has_self
        self.lines = []          # entries: str, or a pending declaration (list) patched when its type is known
        self.n_tmp = {'r': 0, 't': 0}
        self.refine_axes = []    # axes of the refine calls translated so far (source order)
        self.snapshots_after_refine = False
        self.loop_depth_with_refine = 0
        self.sigma = None        # name of the exponent parameter (`refine_grading`)
        self.argsort_inputs = {}  # array name -> input name
        self.ret_type = None
        self.available = set()   # translated methods that may be called from this one
        self.self_gamma = None   # name of the parametrisation stored as `self.gamma_space`
        self.is_constructor = False
        self.attr_locals = {}    # (element variable, attribute) -> loop-local variable
        self.while_fuel = None   # Lean expression bounding the passes of a `while` loop of this function
        self.while_name = 'loop'
        self.helpers = []

    def err(self, node, msg):
        raise TranslationError('%s line %s: %s: `%s`' % (self.fname, getattr(node, 'lineno', '?'), msg, self.src.seg(node)[:160]))

    def name_ok(self, node, name):
        if name in LEAN_KEYWORDS or name in RUNTIME_NAMES or name in GENERATED_NAMES or not name.isidentifier() \
                or not name.isascii() or name.startswith('__') or (len(name) > 1 and name[0] in 'rt' and name[1:].isdigit()):
            self.err(node, 'the local name `%s` cannot be used as a Lean name here' % name)
        return name

    def tmp(self, kind):
        self.n_tmp[kind] += 1
        return '%s%d' % (kind, self.n_tmp[kind])

    def emit(self, ind, text):
        self.lines.append(' ' * ind + text)

    # ---- declarations / assignment ------------------------------------------------------------------------------------
    def assign(self, node, env, name, code, typ, ind):
        self.name_ok(node, name)
        if name in env:
            v = env[name]
            if v.typ != typ:
                if self._unify(v, typ):
                    pass
                else:
                    self.err(node, 'the variable `%s` changes its type (%s -> %s)' % (name, v.typ, typ))
            if getattr(v, 'readonly', False):
                self.err(node, 'assignment to the parameter / loop variable `%s`' % name)
            self.emit(ind, '%s := %s' % (name, code))
        else:
            v = Var(name, typ)
            env[name] = v
            if self._has_unknown(typ):
                v.decl = len(self.lines)
                self.lines.append([ind, name, code])
            else:
                self.emit(ind, 'let mut %s : %s := %s' % (name, lean_type(typ), code))
        self.stats.bump('assignments')

    @staticmethod
    def _has_unknown(t):
        return isinstance(t, tuple) and t[0] in ('list', 'pair2') and t[1] is None

    def _unify(self, v, typ):
        """`v` was declared with an unknown element type: fix it now"""
        if self._has_unknown(v.typ) and isinstance(typ, tuple) and typ[0] == v.typ[0] and typ[1] is not None:
            v.typ = typ
            if v.decl is not None:
                ind, name, code = self.lines[v.decl]
                self.lines[v.decl] = ' ' * ind + 'let mut %s : %s := %s' % (name, lean_type(typ), code)
                v.decl = None
            return True
        return False

    def resolve_elem_type(self, node, v, et):
        """first `append`/`extend` on a list declared as `[]` / `[[], []]` determines its element type"""
        if self._has_unknown(v.typ):
            self._unify(v, (v.typ[0], et))
        if v.typ[1] != et:
            self.err(node, 'element of type %s added to `%s` of type %s' % (et, v.name, v.typ))

    # ---- expressions --------------------------------------------------------------------------------------------------
    def expr(self, node, env, ind, want=None):
        """-> (code, type); effectful sub-expressions are hoisted into statements emitted at indentation `ind`"""
        if isinstance(node, ast.Constant):
            v = node.value
            if isinstance(v, bool):
                return ('true' if v else 'false', BOOL)
            if isinstance(v, int):
                if v < 0:
                    self.err(node, 'negative literal')
                if want == RAT:
                    return ('(%d : Rat)' % v, RAT)
                return (str(v), NAT)
            if isinstance(v, float):
                if v != 0.0:
                    self.err(node, 'float literal other than 0.0')
                return ('(0 : Rat)', RAT)
            self.err(node, 'unsupported constant')
        if isinstance(node, ast.Name):
            if node.id in env:
                v = env[node.id]
                if v.typ == SIGMA:
                    self.err(node, 'the exponent may only be used as `x**%s` inside a comparison' % node.id)
                return (v.name, v.typ)
            self.err(node, 'unknown name')
        if isinstance(node, ast.Tuple):
            parts = [self.expr(e, env, ind) for e in node.elts]
            return ('(%s)' % ', '.join(p[0] for p in parts), TTuple(*[p[1] for p in parts]))
        if isinstance(node, ast.List):
            if not node.elts:
                return ('[]', TList(None))
            if len(node.elts) == 2 and all(isinstance(e, ast.List) and not e.elts for e in node.elts):
                return ('([], [])', PAIR2(None))
            self.err(node, 'unsupported list literal')
        if isinstance(node, ast.Attribute):
            return self.attribute(node, env, ind)
        if isinstance(node, ast.Subscript):
            return self.subscript(node, env, ind)
        if isinstance(node, ast.BinOp):
            return self.binop(node, env, ind, want)
        if isinstance(node, ast.Call):
            return self.call(node, env, ind)
        if isinstance(node, ast.ListComp):
            return self.listcomp(node, env, ind)
        if isinstance(node, ast.DictComp):
            return self.dictcomp(node, env, ind)
        if isinstance(node, (ast.Compare, ast.BoolOp)) or (isinstance(node, ast.UnaryOp) and isinstance(node.op, ast.Not)):
            return (self.cond(node, env, ind), PROP)
        self.err(node, 'unsupported expression')

    def pure_expr(self, node, env):
        """expression in a position where no statement can be emitted (lambda body, comprehension, condition operand)"""
        n0 = len(self.lines)
        r = self.expr(node, env, 0)
        if len(self.lines) != n0:
            self.err(node, 'a call with an effect (refinement / indexing) inside a lambda, comprehension or short-circuit operand')
        return r

    ELEM_ATTR = {'level_time': ('%s.lt', NAT), 'level_space': ('%s.lx', NAT),
                 'h_t': ('(%s.t1 - %s.t0)', RAT), 'h_x': ('(%s.x1 - %s.x0)', RAT)}

    def attribute(self, node, env, ind):
        if isinstance(node.value, ast.Name) and node.value.id == 'self' and self.has_self and node.attr == 'leaf_elements':
            self.note_snapshot(node)
            return ('self.leaves', ELEMS)
        # self.gamma_space.<attr> / gamma_space.<attr>
        g = node.value
        if isinstance(g, ast.Attribute) and isinstance(g.value, ast.Name) and g.value.id == 'self' and g.attr == 'gamma_space' \
                and self.self_gamma is not None:
            g = ast.Name(id=self.self_gamma, ctx=ast.Load())
        if isinstance(g, ast.Name) and g.id in env and env[g.id].typ == GAMMA:
            tab = {'pw_start': ('pw_start', RATS), 'closed': ('closed', BOOL), 'gamma_length': ('gamma_length', RAT)}
            if node.attr not in tab:
                self.err(node, 'unsupported attribute of the parametrisation')
            self.stats.bump('parametrisation_reads')
            return tab[node.attr]
        if isinstance(node.value, ast.Name) and node.value.id == 'self' and 'self' in env and env['self'].typ == MESH \
                and self.is_constructor:
            if node.attr == 'roots':
                # the roots are the leaves as long as nothing has been refined
                if self.refine_axes or self.loop_depth_with_refine:
                    self.err(node, '`self.roots` is read after / inside refinements')
                return ('self.leaves', ELEMS)
            if node.attr == 'vertices':
                return ('self.verts', TList(VTX))
            if node.attr == 'glue_space':
                return ('self.glue', BOOL)
        # elem.vertices[k].x / .t
        if node.attr in ('x', 't') and isinstance(node.value, ast.Subscript) and isinstance(node.value.value, ast.Attribute) \
                and node.value.value.attr == 'vertices' and isinstance(node.value.slice, ast.Constant) \
                and node.value.slice.value in (0, 1, 2, 3) and not isinstance(node.value.slice.value, bool):
            e = self.expr(node.value.value.value, env, ind)
            if e[1] != ELEM:
                self.err(node, 'vertices of a non-element')
            k = node.value.slice.value
            fld = {'t': ['t0', 't0', 't1', 't1'], 'x': ['x0', 'x1', 'x1', 'x0']}[node.attr][k]
            self.stats.bump('element_attribute_reads')
            return ('%s.%s' % (e[0], fld), RAT)
        # elem.gamma_space of the element a loop over the roots runs over: a loop-local optional piece index
        if node.attr == 'gamma_space' and isinstance(node.value, ast.Name) and (node.value.id, 'gamma_space') in self.attr_locals:
            v = self.attr_locals[(node.value.id, 'gamma_space')]
            return (v.name, v.typ)
        base = self.expr(node.value, env, ind)
        if base[1] == VTX and node.attr in ('t', 'x'):
            return ('%s.%d' % (base[0], 1 if node.attr == 't' else 2), RAT)
        if base[1] == EID and node.attr == 'parent':
            if 'self' not in env:
                self.err(node, 'no mesh to look the parent up in')
            self.stats.bump('element_attribute_reads')
            return ('parentOf self %s' % paren(base[0]), OPT_EID)
        if base[1] == ELEM and node.attr in self.ELEM_ATTR:
            pat, t = self.ELEM_ATTR[node.attr]
            self.stats.bump('element_attribute_reads')
            return (pat.replace('%s', base[0]), t)
        if base[1] == ELEM and node.attr == 'children':
            return (self.children_value(node, base[0]), ELEMS)
        self.err(node, 'unsupported attribute')

    def note_snapshot(self, node):
        if self.refine_axes:
            self.snapshots_after_refine = True

    def children_value(self, node, elem_code):
        """`elem.children` as a value: the parent table, with the axis of the refinements issued so far"""
        axes = set(self.refine_axes)
        if len(axes) != 1:
            self.err(node, '`children` is read as a value after refinements in %s' %
                     ('no axis' if not axes else 'both axes'))
        if self.snapshots_after_refine or self.loop_depth_with_refine:
            self.err(node, '`children` is read as a value of elements that need not have been leaves before the refinements')
        self.stats.bump('children_value_reads')
        return 'childrenOf self %s Ax.%s' % (elem_code, axes.pop())

    def subscript(self, node, env, ind):
        idx = node.slice
        # x[:, k]
        if isinstance(idx, ast.Tuple) and len(idx.elts) == 2 and isinstance(idx.elts[0], ast.Slice) \
                and idx.elts[0].lower is None and idx.elts[0].upper is None and idx.elts[0].step is None \
                and isinstance(idx.elts[1], ast.Constant) and idx.elts[1].value in (0, 1):
            b = self.expr(node.value, env, ind)
            if b[1] != RATS2:
                self.err(node, 'column of a value of type %s' % (b[1], ))
            return ('(%s.map (fun p => p.%d))' % (b[0], idx.elts[1].value + 1), RATS)
        if isinstance(node.value, ast.Attribute) and node.value.attr == 'pw_gamma' and isinstance(node.value.value, ast.Name) \
                and node.value.value.id in env and env[node.value.value.id].typ == GAMMA:
            # the i-th piece of the curve = the piece index i
            i = self.expr(idx, env, ind)
            if i[1] != NAT:
                self.err(node, 'piece index of type %s' % (i[1], ))
            return (i[0], 'piece')
        b = self.expr(node.value, env, ind)
        if isinstance(idx, ast.UnaryOp) and isinstance(idx.op, ast.USub) and isinstance(idx.operand, ast.Constant) \
                and idx.operand.value == 1 and isinstance(b[1], tuple) and b[1][0] == 'list' and b[1][1] is not None:
            t = self.tmp('t')
            self.emit(ind, 'let %s ← getLast %s' % (t, paren(b[0])))
            self.stats.bump('indexings')
            return (t, b[1][1])
        if b[1] == DICT:
            k = self.expr(idx, env, ind)
            if k[1] != EID:
                self.err(node, 'key of type %s' % (k[1], ))
            t = self.tmp('t')
            self.emit(ind, 'let %s ← dictGet %s %s' % (t, paren(b[0]), paren(k[0])))
            self.stats.bump('indexings')
            return (t, NAT)
        if isinstance(idx, ast.Constant) and isinstance(idx.value, int) and not isinstance(idx.value, bool):
            k = idx.value
            if isinstance(b[1], tuple) and b[1][0] == 'pair2':
                if k not in (0, 1):
                    self.err(node, 'index %d of a two-element list' % k)
                return ('%s.%d' % (b[0], k + 1), TList(b[1][1]))
            if isinstance(b[1], tuple) and b[1][0] == 'tuple':
                n = len(b[1][1])
                if not 0 <= k < n:
                    self.err(node, 'tuple index out of range')
                return (self.tuple_proj(b[0], k, n), b[1][1][k])
        if isinstance(b[1], tuple) and b[1][0] == 'list' and b[1][1] is not None:
            i = self.expr(idx, env, ind)
            if i[1] != NAT:
                self.err(node, 'index of type %s' % (i[1], ))
            t = self.tmp('t')
            self.emit(ind, 'let %s ← getIdx %s %s' % (t, paren(b[0]), paren(i[0])))
            self.stats.bump('indexings')
            return (t, b[1][1])
        self.err(node, 'unsupported subscript')

    @staticmethod
    def tuple_proj(code, k, n):
        """k-th component of a right-nested Lean tuple with n components"""
        out = paren(code)
        for _ in range(k):
            out += '.2'
        if k < n - 1:
            out += '.1'
        return out

    def binop(self, node, env, ind, want=None):
        if isinstance(node.op, ast.Pow):
            if isinstance(node.right, ast.Name) and node.right.id in env and env[node.right.id].typ == SIGMA:
                self.err(node, '`**%s` outside a comparison' % node.right.id)
            if not (isinstance(node.right, ast.Constant) and node.right.value == 2 and not isinstance(node.right.value, bool)):
                self.err(node, 'only **2 is supported')
            a = self.expr(node.left, env, ind)
            if a[1] not in (RAT, NAT):
                self.err(node, '**2 of %s' % (a[1], ))
            return ('%s ^ 2' % paren(a[0]), a[1])
        sym = {ast.Add: '+', ast.Sub: '-', ast.Mult: '*', ast.Div: '/'}.get(type(node.op))
        if sym is None:
            self.err(node, 'unsupported binary operator')
        a = self.expr(node.left, env, ind)
        b = self.expr(node.right, env, ind, want=a[1] if a[1] == RAT else None)
        if a[1] == NAT and b[1] == RAT and isinstance(node.left, ast.Constant):
            a = self.expr(node.left, env, ind, want=RAT)
        if isinstance(a[1], tuple) and a[1][0] == 'list' and a[1] == b[1] and sym == '+':
            return ('%s ++ %s' % (paren(a[0]), paren(b[0])), a[1])
        if a[1] != b[1] or a[1] not in (RAT, NAT):
            self.err(node, 'operator %s on %s and %s' % (sym, a[1], b[1]))
        if a[1] == NAT and sym in '-/':
            self.err(node, 'operator %s on natural numbers' % sym)
        return ('%s %s %s' % (paren(a[0]), sym, paren(b[0])), a[1])

    def refine_call(self, node, env, ind):
        """`self.refine_time(e)` / `refine_space` / `refine` / `refine_axis(e, k)` -> name of the result (mesh × cells)"""
        f = node.func
        if node.keywords:
            self.err(node, 'keyword arguments')
        args = [self.expr(a, env, ind) for a in node.args]
        if f.attr in ('refine_time', 'refine_space', 'refine'):
            if len(args) != 1 or args[0][1] != ELEM:
                self.err(node, 'one element expected')
            callee = '%s self %s' % (f.attr, paren(args[0][0]))
            axes = {'refine_time': ['time'], 'refine_space': ['space'], 'refine': ['time', 'space']}[f.attr]
        else:
            if len(args) != 2 or args[0][1] != ELEM or args[1][1] != NAT:
                self.err(node, 'an element and an axis number expected')
            callee = 'refineAxisCall self %s %s' % (paren(args[0][0]), paren(args[1][0]))
            axes = {'0': ['time'], '1': ['space']}.get(args[1][0], ['time', 'space'])
        if 'self' not in env or env['self'].typ != MESH:
            self.err(node, 'refinement outside a method')
        r = self.tmp('r')
        self.emit(ind, 'let %s ← %s' % (r, callee))
        self.emit(ind, 'self := %s.1' % r)
        self.refine_axes += axes
        self.stats.bump('refine_calls')
        return r

    def is_argsort_input(self, node):
        """`list(reversed(np.argsort(<array parameter>)))`"""
        try:
            a = node.args[0]
            g = a.args[0]
            return (isinstance(node, ast.Call) and isinstance(node.func, ast.Name) and node.func.id == 'list' and len(node.args) == 1
                    and not node.keywords and isinstance(a, ast.Call) and isinstance(a.func, ast.Name) and a.func.id == 'reversed'
                    and len(a.args) == 1 and not a.keywords and isinstance(g, ast.Call) and ast.unparse(g.func) == 'np.argsort'
                    and len(g.args) == 1 and not g.keywords and isinstance(g.args[0], ast.Name)
                    and g.args[0].id in self.argsort_inputs)
        except (AttributeError, IndexError):
            return False

    def is_refine_call(self, node):
        return (isinstance(node, ast.Call) and isinstance(node.func, ast.Attribute) and isinstance(node.func.value, ast.Name)
                and node.func.value.id == 'self' and self.has_self
                and node.func.attr in ('refine_time', 'refine_space', 'refine', 'refine_axis'))

    def call(self, node, env, ind):
        f = node.func
        if self.is_refine_call(node):
            return ('%s.2' % self.refine_call(node, env, ind), ELEMS)
        if node.keywords and not (isinstance(f, ast.Name) and f.id == 'sorted'):
            self.err(node, 'keyword arguments are not supported here')
        if isinstance(f, ast.Name):
            if f.id == 'len' and len(node.args) == 1:
                a = self.expr(node.args[0], env, ind)
                if a[1] == RATS2 or (isinstance(a[1], tuple) and a[1][0] == 'list'):
                    return ('%s.length' % paren(a[0]), NAT)
                self.err(node, 'len of %s' % (a[1], ))
            if f.id == 'list' and len(node.args) == 1:
                a = node.args[0]
                if isinstance(a, ast.Attribute) and a.attr == 'leaf_elements':
                    return self.attribute(a, env, ind)
                self.err(node, 'unsupported list(...)')
            if f.id == 'range' and len(node.args) == 1:
                n = self.expr(node.args[0], env, ind)
                if n[1] != NAT:
                    self.err(node, 'range of %s' % (n[1], ))
                return ('List.range %s' % paren(n[0]), NATS)
            if f.id == 'enumerate' and len(node.args) == 1:
                a = self.expr(node.args[0], env, ind)
                if not (isinstance(a[1], tuple) and a[1][0] == 'list' and a[1][1] is not None):
                    self.err(node, 'enumerate of %s' % (a[1], ))
                return ('enumerate %s' % paren(a[0]), TList(TTuple(NAT, a[1][1])))
            if f.id == 'sorted':
                if len(node.args) != 1:
                    self.err(node, 'sorted(list, key=...) expected')
                a = self.expr(node.args[0], env, ind)
                return (self.sort_code(node, a, node.keywords, env), a[1])
            self.err(node, 'call of unknown function')
        if isinstance(f, ast.Attribute) and ast.unparse(f) == 'np.zeros' and len(node.args) == 1:
            n = self.expr(node.args[0], env, ind)
            if n[1] != NAT:
                self.err(node, 'np.zeros of %s' % (n[1], ))
            return ('List.replicate %s (0 : Rat)' % paren(n[0]), RATS)
        if isinstance(f, ast.Attribute) and ast.unparse(f) == 'np.sum' and len(node.args) == 1:
            a = self.expr(node.args[0], env, ind)
            if a[1] == RATS:
                return ('sumQ %s' % paren(a[0]), RAT)
            if a[1] == RATS2:
                return ('sumQ (%s.map (fun p => p.1 + p.2))' % a[0], RAT)
            self.err(node, 'np.sum of %s' % (a[1], ))
        self.err(node, 'unsupported call')

    def sort_code(self, node, lst, keywords, env):
        """stable sort by a key: `sortBy (fun a b => decide (key a < key b)) l` (`reverse=True`: `>`)"""
        if not (isinstance(lst[1], tuple) and lst[1][0] == 'list' and lst[1][1] is not None):
            self.err(node, 'sort of a value of type %s' % (lst[1], ))
        kw = {k.arg: k.value for k in keywords}
        if set(kw) - {'key', 'reverse'} or 'key' not in kw:
            self.err(node, 'sort needs key= (and optionally reverse=True)')
        rev = False
        if 'reverse' in kw:
            if not (isinstance(kw['reverse'], ast.Constant) and kw['reverse'].value is True):
                self.err(node, 'reverse= must be the literal True')
            rev = True
        lam = kw['key']
        a = lam.args if isinstance(lam, ast.Lambda) else None
        if a is None or a.vararg or a.kwarg or a.kwonlyargs or a.defaults or len(a.args) != 1:
            self.err(node, 'key must be a lambda with one parameter')
        pname = a.args[0].arg
        ka = self.pure_expr(lam.body, dict(env, **{pname: Var('a', lst[1][1])}))
        kb = self.pure_expr(lam.body, dict(env, **{pname: Var('b', lst[1][1])}))
        if ka[1] not in (NAT, RAT):
            self.err(node, 'sort key of type %s' % (ka[1], ))
        self.stats.bump('sorts')
        return 'sortBy (fun a b : %s => decide (%s %s %s)) %s' % (lean_type(lst[1][1]), ka[0], '>' if rev else '<', kb[0],
                                                                 paren(lst[0]))

    def listcomp(self, node, env, ind):
        """`[E for pat in zip(A, B)]` / `[E for x in L]` (no condition)"""
        if len(node.generators) != 1:
            self.err(node, 'nested comprehension')
        g = node.generators[0]
        if g.is_async:
            self.err(node, 'async comprehension')
        it = g.iter
        if isinstance(g.target, ast.Name):
            # [E for x in L]  /  [E for x in L if C]
            L = self.pure_expr(it, env)
            if not (isinstance(L[1], tuple) and L[1][0] == 'list' and L[1][1] is not None):
                self.err(node, 'comprehension over a value of type %s' % (L[1], ))
            n = self.name_ok(node, g.target.id)
            env2 = dict(env)
            env2[n] = Var(n, L[1][1])
            env2[n].readonly = True
            src_code = paren(L[0])
            n_lines = len(self.lines)
            conds = []
            for c in g.ifs:
                conds.append(self.cond(c, env2, ind + 2))
            if len(self.lines) != n_lines:
                # a condition with an effect (an index expression): Python evaluates it once per element; the
                # comprehension becomes the loop it abbreviates
                hoisted = self.lines[n_lines:]
                del self.lines[n_lines:]
                if any(not isinstance(h, str) for h in hoisted) or len(g.ifs) != 1:
                    self.err(node, 'unsupported effect inside a comprehension')
                body = self.pure_expr(node.elt, env2)
                acc = self.tmp('t')
                self.emit(ind, 'let mut %s : %s := []' % (acc, lean_type(TList(body[1]))))
                self.emit(ind, 'for %s in %s do' % (n, L[0]))
                self.lines += hoisted
                self.emit(ind + 2, 'if %s then' % conds[0])
                self.emit(ind + 4, '%s := %s ++ [%s]' % (acc, acc, body[0]))
                self.stats.bump('comprehensions')
                self.stats.bump('for_loops')
                return (acc, TList(body[1]))
            for cc in conds:
                src_code = '(%s.filter (fun %s => decide %s))' % (src_code, n, cc)
            body = self.pure_expr(node.elt, env2)
            self.stats.bump('comprehensions')
            return ('%s.map (fun %s => %s)' % (src_code, n, body[0]), TList(body[1]))
        if g.ifs:
            self.err(node, 'comprehension with a condition')
        if isinstance(it, ast.Call) and isinstance(it.func, ast.Name) and it.func.id == 'zip' and len(it.args) == 2 and not it.keywords:
            A, B = self.pure_expr(it.args[0], env), self.pure_expr(it.args[1], env)
            for v in (A, B):
                if not (isinstance(v[1], tuple) and v[1][0] == 'list' and v[1][1] is not None):
                    self.err(node, 'zip of %s' % (v[1], ))
            if not (isinstance(g.target, ast.Tuple) and len(g.target.elts) == 2 and all(isinstance(e, ast.Name) for e in g.target.elts)):
                self.err(node, 'two names expected for the zip')
            n0, n1 = g.target.elts[0].id, g.target.elts[1].id
            if n0 == n1:
                self.err(node, 'same name twice')
            env2 = dict(env)
            env2[n0], env2[n1] = Var('x.1', A[1][1]), Var('x.2', B[1][1])
            body = self.pure_expr(node.elt, env2)
            self.stats.bump('comprehensions')
            return ('(List.zip %s %s).map (fun x => %s)' % (paren(A[0]), paren(B[0]), body[0]), TList(body[1]))
        self.err(node, 'unsupported comprehension')

    def dictcomp(self, node, env, ind):
        """`{k: v for v, k in enumerate(L)}`: the position of every element of `L` (a later duplicate wins, as in Python)"""
        ok = (len(node.generators) == 1 and not node.generators[0].ifs and not node.generators[0].is_async
              and isinstance(node.generators[0].target, ast.Tuple) and len(node.generators[0].target.elts) == 2
              and all(isinstance(e, ast.Name) for e in node.generators[0].target.elts)
              and isinstance(node.key, ast.Name) and isinstance(node.value, ast.Name))
        if ok:
            g = node.generators[0]
            vi, ki = g.target.elts[0].id, g.target.elts[1].id
            it = g.iter
            ok = (vi != ki and node.key.id == ki and node.value.id == vi and isinstance(it, ast.Call)
                  and isinstance(it.func, ast.Name) and it.func.id == 'enumerate' and len(it.args) == 1 and not it.keywords)
        if not ok:
            self.err(node, 'only `{k: v for v, k in enumerate(L)}` is supported')
        L = self.pure_expr(it.args[0], env)
        if L[1] != EIDS:
            self.err(node, 'position map of a value of type %s' % (L[1], ))
        self.stats.bump('comprehensions')
        return ('dictOfEnumerate %s' % paren(L[0]), DICT)

    # ---- conditions ---------------------------------------------------------------------------------------------------
    def cond(self, node, env, ind, children_as_value=None):
        """-> a decidable Lean proposition"""
        if isinstance(node, ast.BoolOp):
            op = ' ∧ ' if isinstance(node.op, ast.And) else ' ∨ '
            parts = [self.cond(node.values[0], env, ind, children_as_value)]
            for v in node.values[1:]:
                n0 = len(self.lines)
                parts.append(self.cond(v, env, ind, children_as_value))
                if len(self.lines) != n0:
                    self.err(v, 'a call with an effect in a short-circuit operand')
            return '(' + op.join(parts) + ')'
        if isinstance(node, ast.UnaryOp) and isinstance(node.op, ast.Not):
            return '(¬ %s)' % self.cond(node.operand, env, ind, children_as_value)
        if isinstance(node, ast.Compare):
            parts, left = [], node.left
            for op, right in zip(node.ops, node.comparators):
                parts.append(self.cmp1(node, op, left, right, env, ind))
                left = right
            return parts[0] if len(parts) == 1 else '(' + ' ∧ '.join(parts) + ')'
        if isinstance(node, ast.Attribute) and node.attr == 'children':
            b = self.expr(node.value, env, ind)
            if b[1] != ELEM:
                self.err(node, 'children of a non-element')
            if children_as_value == ast.unparse(node.value):
                return '(¬ (%s = []))' % self.children_value(node, b[0])
            self.stats.bump('children_tests')
            return '(hasChildren self %s = true)' % b[0]
        v = self.expr(node, env, ind)
        if v[1] == BOOL:
            return '(%s = true)' % v[0]
        if v[1] == PROP:
            return v[0]
        if v[1] in (OPT_EID, OPT_NAT):
            return '((%s).isSome = true)' % v[0]
        if isinstance(v[1], tuple) and v[1][0] == 'list':
            return '(¬ (%s = []))' % v[0]
        self.err(node, 'not a condition (type %s): truthiness of numbers is not supported' % (v[1], ))

    def is_sigma_pow(self, node, env):
        return (isinstance(node, ast.BinOp) and isinstance(node.op, ast.Pow) and isinstance(node.right, ast.Name)
                and node.right.id in env and env[node.right.id].typ == SIGMA)

    def cmp1(self, node, op, left, right, env, ind):
        if isinstance(op, (ast.In, ast.NotIn)):
            k, d = self.expr(left, env, ind), self.expr(right, env, ind)
            if d[1] != DICT or k[1] != EID:
                self.err(node, '`in` is supported for an element and a position map only')
            c = '(dictHas %s %s = true)' % (paren(d[0]), paren(k[0]))
            return c if isinstance(op, ast.In) else '(¬ %s)' % c
        sym = {ast.Eq: '=', ast.NotEq: '≠', ast.Lt: '<', ast.LtE: '≤', ast.Gt: '>', ast.GtE: '≥'}.get(type(op))
        if sym is None:
            self.err(node, 'unsupported comparison operator')
        # a ⋈ b**sigma  /  b**sigma ⋈ a   (sigma = p/q)  ->  a^q ⋈ b^p
        ls, rs = self.is_sigma_pow(left, env), self.is_sigma_pow(right, env)
        if ls or rs:
            if ls and rs:
                self.err(node, 'power on both sides')
            if sym in ('=', '≠'):
                self.err(node, '(in)equality with a rational power')
            self.stats.bump('sigma_comparisons')
            if rs:
                a, b = self.expr(left, env, ind), self.expr(right.left, env, ind)
                if a[1] != RAT or b[1] != RAT:
                    self.err(node, 'numbers expected')
                return '(%s ^ q %s %s ^ p)' % (paren(a[0]), sym, paren(b[0]))
            b, a = self.expr(left.left, env, ind), self.expr(right, env, ind)
            if a[1] != RAT or b[1] != RAT:
                self.err(node, 'numbers expected')
            return '(%s ^ p %s %s ^ q)' % (paren(b[0]), sym, paren(a[0]))
        # x.shape == (n, 2)
        if isinstance(left, ast.Attribute) and left.attr == 'shape' and sym == '=':
            b = self.expr(left.value, env, ind)
            if b[1] != RATS2 or not (isinstance(right, ast.Tuple) and len(right.elts) == 2 and isinstance(right.elts[1], ast.Constant)
                                     and right.elts[1].value == 2):
                self.err(node, 'only `<(N,2) array>.shape == (n, 2)` is supported')
            n = self.expr(right.elts[0], env, ind)
            if n[1] != NAT:
                self.err(node, 'length of type %s' % (n[1], ))
            return '(%s.length = %s)' % (paren(b[0]), n[0])
        if isinstance(left, ast.BinOp) and isinstance(left.op, ast.Sub):
            a1, a2 = self.expr(left.left, env, ind), self.expr(left.right, env, ind)
            if a1[1] == NAT and a2[1] == NAT:
                # integers: a1 - a2 ⋈ b  <->  a1 ⋈ b + a2   (no truncated subtraction)
                b = self.expr(right, env, ind)
                if b[1] != NAT:
                    self.err(node, 'comparison of an integer difference with %s' % (b[1], ))
                return '(%s %s %s + %s)' % (a1[0], sym, paren(b[0]), paren(a2[0]))
        a = self.expr(left, env, ind)
        b = self.expr(right, env, ind, want=a[1] if a[1] == RAT else None)
        if a[1] == NAT and b[1] == RAT and isinstance(left, ast.Constant):
            a = self.expr(left, env, ind, want=RAT)
        if a[1] != b[1] or a[1] not in (RAT, NAT, EID):
            self.err(node, 'comparison of %s and %s' % (a[1], b[1]))
        if a[1] == EID and sym not in ('=', '≠'):
            self.err(node, 'order comparison of element references')
        return '(%s %s %s)' % (a[0], sym, b[0])

    # ---- statements ---------------------------------------------------------------------------------------------------
    def is_print(self, st):
        return isinstance(st, ast.Expr) and isinstance(st.value, ast.Call) and isinstance(st.value.func, ast.Name) \
            and st.value.func.id == 'print'

    def check_print(self, st, env):
        """a `print` is dropped; its arguments must be free of effects: names, attributes, len(), format(), arithmetic"""
        for n in ast.walk(st.value):
            if isinstance(n, ast.Call):
                fn = ast.unparse(n.func)
                if not (fn in ('print', 'len') or fn.endswith('.format')):
                    self.err(st, 'print with the call `%s`' % fn)
            elif isinstance(n, (ast.NamedExpr, ast.Await, ast.Yield, ast.YieldFrom, ast.Lambda)):
                self.err(st, 'unsupported print argument')
        self.stats.bump('prints_dropped')

    @staticmethod
    def contains_refine(stmts):
        for s in stmts:
            for n in ast.walk(s):
                if isinstance(n, ast.Call) and isinstance(n.func, ast.Attribute) and n.func.attr in (
                        'refine_time', 'refine_space', 'refine', 'refine_axis', 'uniform_refine', 'uniform_refine_space'):
                    return True
        return False

    @staticmethod
    def assigned_names(stmts):
        """names (re)bound or mutated in place by the statements"""
        out = set()
        for s in stmts:
            for n in ast.walk(s):
                tg = []
                if isinstance(n, ast.Assign):
                    tg = n.targets
                elif isinstance(n, (ast.AugAssign, ast.AnnAssign)):
                    tg = [n.target]
                elif isinstance(n, ast.For):
                    tg = [n.target]
                elif isinstance(n, ast.Call) and isinstance(n.func, ast.Attribute) and n.func.attr in (
                        'append', 'extend', 'sort', 'pop', 'insert', 'remove', 'clear', 'reverse', 'update', 'setdefault'):
                    tg = [n.func.value]
                for t in tg:
                    for m in ast.walk(t):
                        if isinstance(m, ast.Name):
                            out.add(m.id)
        return out

    def block(self, stmts, env, ind, first=False):
        if not stmts:
            self.err(self.node, 'empty block')
        n_before = len(self.lines)
        for i, st in enumerate(stmts):
            if first and i == 0 and isinstance(st, ast.Expr) and isinstance(st.value, ast.Constant) and isinstance(st.value.value, str):
                continue
            self.stmt(st, env, ind, last=(i == len(stmts) - 1))
        if len(self.lines) == n_before:
            self.emit(ind, 'pure ()')

    def stmt(self, st, env, ind, last=False):
        if self.is_print(st):
            self.check_print(st, env)
            return
        if isinstance(st, ast.Pass):
            return
        if isinstance(st, ast.Expr) and self.is_constructor and ast.unparse(st.value.func if isinstance(st.value, ast.Call) else st.value) \
                == 'super().__init__':
            return self.super_init(st, env, ind)
        if isinstance(st, ast.Expr):
            return self.expr_stmt(st, env, ind)
        if isinstance(st, ast.If) and self.is_constructor and isinstance(st.test, ast.Compare) and len(st.test.ops) == 1 \
                and isinstance(st.test.ops[0], ast.Is) and isinstance(st.test.left, ast.Name) \
                and isinstance(st.test.comparators[0], ast.Constant) and st.test.comparators[0].value is None:
            return self.default_arg(st, env, ind)
        if isinstance(st, ast.Assign):
            if len(st.targets) != 1:
                self.err(st, 'chained assignment')
            tg = st.targets[0]
            if self.is_constructor and ast.unparse(tg) == 'self.gamma_space' and isinstance(st.value, ast.Name) \
                    and st.value.id in env and env[st.value.id].typ == GAMMA and 'self' in env:
                self.self_gamma = st.value.id      # the curve is a parameter of the generated function: nothing to emit
                self.stats.bump('assignments')
                return
            if isinstance(tg, ast.Attribute) and isinstance(tg.value, ast.Name) and (tg.value.id, tg.attr) in self.attr_locals:
                v = self.attr_locals[(tg.value.id, tg.attr)]
                e = self.expr(st.value, env, ind)
                if e[1] != 'piece':
                    self.err(st, 'a piece of the curve expected')
                self.emit(ind, '%s := some %s' % (v.name, paren(e[0])))
                self.emit(ind, 'self := setPiece self %s %s' % (env[tg.value.id].name, paren(e[0])))
                self.stats.bump('assignments')
                return
            if isinstance(tg, ast.Subscript) and isinstance(tg.value, ast.Name) and tg.value.id in env \
                    and env[tg.value.id].typ == RATS:
                # vec[j] = e
                v = env[tg.value.id]
                j = self.expr(tg.slice, env, ind)
                e = self.expr(st.value, env, ind, want=RAT)
                if j[1] != NAT or e[1] != RAT or getattr(v, 'readonly', False):
                    self.err(st, 'unsupported item assignment')
                self.emit(ind, '%s ← listSet %s %s %s' % (v.name, v.name, paren(j[0]), paren(e[0])))
                self.stats.bump('assignments')
                return
            if not isinstance(tg, ast.Name):
                self.err(st, 'unsupported assignment target')
            if self.is_argsort_input(st.value) and tg.id not in env:
                # `s_idx = list(reversed(np.argsort(x)))`: the name is bound to the input of the generated function
                inp = self.argsort_inputs[st.value.args[0].args[0].args[0].id]
                if inp != tg.id:
                    self.err(st, 'the index list is expected under the name `%s`' % inp)
                env[tg.id] = Var(inp, NATS)
                env[tg.id].readonly = True
                self.emit(ind, '-- %s: an input of this function' % self.src.seg(st))
                self.stats.bump('argsort_inputs')
                return
            want = env[tg.id].typ if tg.id in env else None
            v = self.expr(st.value, env, ind, want=want if want == RAT else None)
            if v[1] in (PROP, MESH, SIGMA):
                self.err(st, 'assignment of a value of type %s' % (v[1], ))
            if v[1] == OPT_EID:
                # `x = elem.parent` where x holds an element: `None` would fail at the next use of x as an element
                t = self.tmp('t')
                self.emit(ind, 'let %s ← optGet %s' % (t, paren(v[0])))
                v = (t, EID)
            return self.assign(st, env, tg.id, v[0], v[1], ind)
        if isinstance(st, ast.AugAssign):
            if not isinstance(st.target, ast.Name) or st.target.id not in env or not isinstance(st.op, ast.Add):
                self.err(st, 'only `name += e` on a known variable is supported')
            v = env[st.target.id]
            e = self.expr(st.value, env, ind, want=v.typ if v.typ == RAT else None)
            if isinstance(v.typ, tuple) and v.typ[0] == 'list':
                if not (isinstance(e[1], tuple) and e[1][0] == 'list'):
                    self.err(st, '+= of %s to a list' % (e[1], ))
                self.resolve_elem_type(st, v, e[1][1])
                return self.assign(st, env, v.name, '%s ++ %s' % (v.name, paren(e[0])), v.typ, ind)
            if v.typ in (RAT, NAT) and e[1] == v.typ:
                return self.assign(st, env, v.name, '%s + %s' % (v.name, paren(e[0])), v.typ, ind)
            self.err(st, '+= on %s and %s' % (v.typ, e[1]))
        if isinstance(st, ast.Assert):
            return self.assert_stmt(st, env, ind)
        if isinstance(st, ast.For):
            return self.for_stmt(st, env, ind)
        if isinstance(st, ast.While):
            return self.while_stmt(st, env, ind)
        if isinstance(st, ast.If):
            return self.if_stmt(st, env, ind)
        if isinstance(st, ast.Break):
            self.stats.bump('breaks')
            return self.emit(ind, 'break')
        if isinstance(st, ast.Continue):
            self.stats.bump('continues')
            return self.emit(ind, 'continue')
        if isinstance(st, ast.Return):
            if not last or ind != 2:
                self.err(st, 'return is supported as the last statement of the function only')
            return self.return_stmt(st, env, ind)
        self.err(st, 'unsupported statement')

    def assert_stmt(self, st, env, ind):
        if st.msg is not None:
            self.err(st, 'assert with a message')
        key = (self.fname, ast.unparse(st.test))
        if key not in ASSERT_TAGS:
            self.err(st, 'assertion without a known label')
        tag = ASSERT_TAGS[key]
        self.stats.bump('asserts')
        if tag is None:
            return
        c = self.cond(st.test, env, ind)
        self.emit(ind, 'assertThat %s "assert:%s"' % (c, tag))

    PROCEDURES = {'uniform_refine': ['time', 'space'], 'uniform_refine_space': ['space']}

    def expr_stmt(self, st, env, ind):
        c = st.value
        if self.is_refine_call(c):
            self.refine_call(c, env, ind)
            return
        if isinstance(c, ast.Call) and isinstance(c.func, ast.Attribute) and isinstance(c.func.value, ast.Name) \
                and c.func.value.id == 'self' and self.has_self and c.func.attr in self.PROCEDURES \
                and c.func.attr in self.available and not c.args and not c.keywords and 'self' in env:
            # a call of a method translated earlier in the generated file
            self.emit(ind, 'self ← %s self' % c.func.attr)
            self.refine_axes += self.PROCEDURES[c.func.attr]
            self.stats.bump('refine_calls')
            return
        if isinstance(c, ast.Call) and isinstance(c.func, ast.Attribute) and not self.is_refine_call(c):
            f = c.func
            # marked[i].append(e) / marked[k].sort(key=...)
            if isinstance(f.value, ast.Subscript) and isinstance(f.value.value, ast.Name) and f.value.value.id in env \
                    and isinstance(env[f.value.value.id].typ, tuple) and env[f.value.value.id].typ[0] == 'pair2':
                return self.pair_method(st, c, env, ind)
            if isinstance(f.value, ast.Name) and f.value.id in env and isinstance(env[f.value.id].typ, tuple) \
                    and env[f.value.id].typ[0] == 'list':
                v = env[f.value.id]
                if f.attr in ('append', 'extend') and len(c.args) == 1 and not c.keywords:
                    e = self.expr(c.args[0], env, ind)
                    if f.attr == 'append':
                        self.resolve_elem_type(st, v, e[1])
                        return self.assign(st, env, v.name, '%s ++ [%s]' % (v.name, e[0]), v.typ, ind)
                    if not (isinstance(e[1], tuple) and e[1][0] == 'list'):
                        self.err(st, 'extend by %s' % (e[1], ))
                    self.resolve_elem_type(st, v, e[1][1])
                    return self.assign(st, env, v.name, '%s ++ %s' % (v.name, paren(e[0])), v.typ, ind)
                if f.attr == 'sort' and not c.args:
                    return self.assign(st, env, v.name, self.sort_code(st, (v.name, v.typ), c.keywords, env), v.typ, ind)
        self.err(st, 'unsupported expression statement')

    def pair_method(self, st, c, env, ind):
        f = c.func
        v = env[f.value.value.id]
        idx = f.value.slice
        if f.attr == 'append' and len(c.args) == 1 and not c.keywords:
            e = self.expr(c.args[0], env, ind)
            if v.typ[1] is None:
                self._unify(v, PAIR2(e[1]))
            if v.typ[1] != e[1]:
                self.err(st, 'element of type %s added to `%s`' % (e[1], v.name))
            if isinstance(idx, ast.Constant) and idx.value in (0, 1) and not isinstance(idx.value, bool):
                code = '(%s.1 ++ [%s], %s.2)' % (v.name, e[0], v.name) if idx.value == 0 else \
                    '(%s.1, %s.2 ++ [%s])' % (v.name, v.name, e[0])
                return self.assign(st, env, v.name, code, v.typ, ind)
            i = self.expr(idx, env, ind)
            if i[1] != NAT or e[1] != ELEM:
                self.err(st, 'an axis number and an element expected')
            self.emit(ind, '%s ← pairAppendAt %s %s %s' % (v.name, v.name, paren(i[0]), paren(e[0])))
            self.stats.bump('assignments')
            return
        if f.attr == 'sort' and not c.args and isinstance(idx, ast.Constant) and idx.value in (0, 1) and v.typ[1] is not None:
            k = idx.value
            s = self.sort_code(st, ('%s.%d' % (v.name, k + 1), TList(v.typ[1])), c.keywords, env)
            code = '(%s, %s.2)' % (s, v.name) if k == 0 else '(%s.1, %s)' % (v.name, s)
            return self.assign(st, env, v.name, code, v.typ, ind)
        self.err(st, 'unsupported operation on the list pair')

    def for_stmt(self, st, env, ind):
        if st.orelse:
            self.err(st, 'for ... else')
        it = self.expr(st.iter, env, ind)
        if it[1] == RATS2:
            self.err(st, 'iteration over an (N,2) array')
        if not (isinstance(it[1], tuple) and it[1][0] == 'list' and it[1][1] is not None):
            self.err(st, 'iteration over a value of type %s' % (it[1], ))
        et = it[1][1]
        # Python iterates over the live list object: the body must not modify the names the iterable is made of
        used = {n.id for n in ast.walk(st.iter) if isinstance(n, ast.Name)} - {'self', 'list', 'sorted', 'len'}
        clash = used & self.assigned_names(st.body)
        if clash:
            self.err(st, 'the loop body modifies the iterated variable(s) %s' % sorted(clash))
        env2 = dict(env)
        if isinstance(st.target, ast.Name):
            n = self.name_ok(st, st.target.id)
            pat = n
            env2[n] = Var(n, et)
            env2[n].readonly = True
        elif isinstance(st.target, ast.Tuple) and all(isinstance(e, ast.Name) for e in st.target.elts):
            if not (isinstance(et, tuple) and et[0] == 'tuple' and len(et[1]) == len(st.target.elts)):
                self.err(st, 'cannot unpack elements of type %s' % (et, ))
            names = [self.name_ok(st, e.id) for e in st.target.elts]
            if len(set(names)) != len(names):
                self.err(st, 'same name twice')
            pat = '(%s)' % ', '.join(names)
            for n, t in zip(names, et[1]):
                env2[n] = Var(n, t)
                env2[n].readonly = True
        else:
            self.err(st, 'unsupported loop target')
        for n in self.assigned_names([ast.Expr(st.target)]) if False else []:
            pass
        has_ref = self.contains_refine(st.body)
        self.emit(ind, 'for %s in %s do' % (pat, it[0]))
        self.stats.bump('for_loops')
        over_roots = self.is_constructor and ast.unparse(st.iter) == 'self.roots' and isinstance(st.target, ast.Name)
        uses_attr = any(isinstance(n, ast.Attribute) and n.attr == 'gamma_space' and isinstance(n.value, ast.Name)
                        and n.value.id == getattr(st.target, 'id', None) for s_ in st.body for n in ast.walk(s_))
        if over_roots and uses_attr:
            # a root has `gamma_space = None` until this loop sets it (Element.__init__, checked by the translator)
            key = (st.target.id, 'gamma_space')
            lv = Var('%s_gamma_space' % st.target.id, OPT_NAT)
            self.name_ok(st, lv.name)
            self.attr_locals[key] = lv
            self.emit(ind + 2, 'let mut %s : Option Nat := none' % lv.name)
        elif uses_attr:
            self.err(st, '`gamma_space` of elements other than the roots in the constructor')
        if has_ref:
            self.loop_depth_with_refine += 1
        before = set(env2)
        self.block(st.body, env2, ind + 2)
        if has_ref:
            self.loop_depth_with_refine -= 1
        if over_roots and uses_attr:
            del self.attr_locals[(st.target.id, 'gamma_space')]
        # variables first bound inside the loop body are local to one iteration in the generated code: they stay
        # unknown after the loop (a later read raises `unknown name`)
        for n in set(env2) - before:
            pass
        # types fixed inside the body (pending declarations) are shared objects: nothing to copy back

    def super_init(self, st, env, ind):
        """`super().__init__(glue_space=…, initial_space_mesh=…, initial_time_mesh=…)`: `Mesh.__init__` is not part of the
        translated fragment; it is bound to the model's `init` (tied by the C02 correspondence)"""
        c = st.value
        kw = {k.arg: k.value for k in c.keywords}
        if c.args or sorted(kw) != ['glue_space', 'initial_space_mesh', 'initial_time_mesh'] or 'self' in env:
            self.err(st, 'super().__init__(glue_space=, initial_space_mesh=, initial_time_mesh=) expected, once')
        fn = self.src.method('Mesh', '__init__')
        if [a.arg for a in fn.args.args] != ['self', 'glue_space', 'initial_space_mesh', 'initial_time_mesh']:
            self.err(st, 'Mesh.__init__ has other parameters')
        g, X, T = (self.expr(kw[k], env, ind) for k in ('glue_space', 'initial_space_mesh', 'initial_time_mesh'))
        if (g[1], X[1], T[1]) != (BOOL, RATS, RATS):
            self.err(st, 'argument types %s' % ((g[1], X[1], T[1]), ))
        self.emit(ind, 'let mut self : Mesh := init %s %s %s' % (paren(g[0]), paren(X[0]), paren(T[0])))
        env['self'] = Var('self', MESH)
        self.stats.bump('assignments')

    def default_arg(self, st, env, ind):
        """`if x is None: x = e` for an optional argument"""
        n = st.test.left.id
        ok = (n in env and isinstance(env[n].typ, tuple) and env[n].typ[0] == 'opt' and not st.orelse and len(st.body) == 1
              and isinstance(st.body[0], ast.Assign) and len(st.body[0].targets) == 1
              and isinstance(st.body[0].targets[0], ast.Name) and st.body[0].targets[0].id == n)
        if not ok:
            self.err(st, 'only `if <optional argument> is None: <the same name> = default` is supported')
        e = self.pure_expr(st.body[0].value, env)
        t = env[n].typ[1]
        if e[1] != t:
            self.err(st, 'default of type %s' % (e[1], ))
        self.emit(ind, 'let mut %s : %s := match %s with | some v => v | none => %s' % (n, lean_type(t), n, e[0]))
        env[n] = Var(n, t)
        self.stats.bump('branches')

    def while_stmt(self, st, env, ind):
        """`while C: BODY` where BODY rebinds exactly one variable `x` (and may assert): a helper function recursive on an
        explicit bound `fuel` on the number of passes (given by the caller of the translator for this function)"""
        if st.orelse or self.while_fuel is None:
            self.err(st, 'while loop')
        for n in ast.walk(st):
            if isinstance(n, (ast.Break, ast.Continue, ast.Return, ast.For)) or (isinstance(n, ast.While) and n is not st):
                self.err(st, 'break / continue / return / nested loop inside a while loop')
        if self.contains_refine(st.body):
            self.err(st, 'refinement inside a while loop')
        state = sorted(self.assigned_names(st.body))
        if len(state) != 1 or state[0] not in env or getattr(env[state[0]], 'readonly', False):
            self.err(st, 'the loop body must rebind exactly one (already bound) variable, found %s' % state)
        x = env[state[0]]
        used = [n.id for n in ast.walk(st) if isinstance(n, ast.Name)]
        params = [v for k, v in env.items() if k in used and k != state[0] and k != 'self']
        hname = '%s_%s' % (self.fname.replace('.', '_'), self.while_name)
        if self.helpers:
            self.err(st, 'second while loop')
        sub = Fn(self.src, self.stats, self.fname, self.node, has_self=self.has_self)
        sub.n_tmp = self.n_tmp
        env2 = dict(env)
        c = sub.cond(st.test, env2, 4)
        if sub.lines:
            self.err(st, 'effect in the loop condition')
        sub.emit(4, 'if %s then do' % c)
        sub.emit(6, 'let mut %s : %s := %s' % (x.name, lean_type(x.typ), x.name))
        env3 = dict(env2)
        sub.block(st.body, env3, 6)
        sub.emit(6, '%s %sfuel %s' % (hname, ''.join(p.name + ' ' for p in ([env['self']] if 'self' in env else []) + params), x.name))
        sub.emit(4, 'else pure %s' % x.name)
        sig = ''.join('(%s : %s) ' % (p.name, lean_type(p.typ)) for p in ([env['self']] if 'self' in env else []) + params)
        self.helpers += ['/-- the loop `while %s:` of `%s`: `fuel` bounds the number of passes -/' % (self.src.seg(st.test), self.fname),
                         'def %s %s: Nat → %s → Except String %s' % (hname, sig, lean_type(x.typ), lean_type(x.typ)),
                         '  | 0, _ => .error "fuel"',
                         '  | fuel + 1, %s =>' % x.name] + sub.finish_lines() + ['']
        self.emit(ind, '%s ← %s %s%s %s' % (x.name, hname, ''.join(p.name + ' ' for p in ([env['self']] if 'self' in env else []) + params),
                                          paren(self.while_fuel), x.name))
        self.stats.bump('while_loops')

    def if_stmt(self, st, env, ind):
        # `if X.children:` whose branches read the value `X.children` tests the same lookup
        as_value = None
        t = st.test.operand if isinstance(st.test, ast.UnaryOp) and isinstance(st.test.op, ast.Not) else st.test
        if isinstance(t, ast.Attribute) and t.attr == 'children':
            who = ast.unparse(t.value)
            for s in list(st.body) + list(st.orelse):
                for n in ast.walk(s):
                    if isinstance(n, ast.Attribute) and n.attr == 'children' and ast.unparse(n.value) == who:
                        as_value = who
        if isinstance(st.test, ast.Compare) and len(st.test.ops) > 1 and any(
                isinstance(n, ast.Subscript) for cmp_ in st.test.comparators[1:] for n in ast.walk(cmp_)):
            # a ⋈ b ⋈' c with an index expression in c: Python evaluates c only if a ⋈ b holds
            if st.orelse or len(st.test.ops) != 2:
                self.err(st, 'chained comparison with an index expression and an else branch')
            mid = st.test.comparators[0]
            if any(isinstance(n, (ast.Subscript, ast.Call)) for n in ast.walk(mid)) and not (
                    isinstance(mid, ast.Attribute) and mid.attr in ('x', 't')):
                self.err(st, 'the middle operand of the chained comparison must be free of effects')
            first = ast.Compare(left=st.test.left, ops=[st.test.ops[0]], comparators=[mid])
            second = ast.Compare(left=mid, ops=[st.test.ops[1]], comparators=[st.test.comparators[1]])
            for n in (first, second):
                ast.copy_location(n, st.test)
            c1 = self.cond(first, env, ind)
            self.stats.bump('branches', 2)
            self.emit(ind, 'if %s then' % c1)
            c2 = self.cond(second, env, ind + 2)
            self.emit(ind + 2, 'if %s then' % c2)
            self.block(st.body, dict(env), ind + 4)
            return
        c = self.cond(st.test, env, ind, children_as_value=as_value)
        self.stats.bump('branches')
        self.emit(ind, 'if %s then' % c)
        envs = [dict(env)]
        self.block(st.body, envs[0], ind + 2)
        if st.orelse:
            if len(st.orelse) == 1 and isinstance(st.orelse[0], ast.If):
                self.emit(ind, 'else')
                envs.append(dict(env))
                self.if_stmt(st.orelse[0], envs[1], ind + 2)
            else:
                self.emit(ind, 'else')
                envs.append(dict(env))
                self.block(st.orelse, envs[1], ind + 2)
        # names first bound inside a branch are local to it in the generated code (a later read raises `unknown name`)

    def return_stmt(self, st, env, ind):
        self.stats.bump('returns')
        if st.value is None:
            self.err(st, 'bare return')
        v = self.expr(st.value, env, ind)
        if self.ret_type is not None and v[1] != self.ret_type:
            self.err(st, 'result of type %s (expected %s)' % (v[1], self.ret_type))
        self.ret_type = v[1]
        self.emit(ind, 'return (self, %s)' % v[0] if self.has_self else 'return %s' % v[0])
        self.returned = True

    def finish_lines(self):
        for l in self.lines:
            if not isinstance(l, str):
                raise TranslationError('%s: the element type of the list `%s` could not be determined' % (self.fname, l[1]))
        return list(self.lines)


# ---------------------------------------------------------------------------------------------------------------------
def check_params(fn, names, n_defaults=0):
    a = fn.args
    got = [x.arg for x in a.args]
    if a.vararg or a.kwarg or a.kwonlyargs or len(a.defaults) != n_defaults or got != names:
        raise TranslationError('%s: parameters %s with %d defaults (expected %s with %d)' %
                               (fn.name, got, len(a.defaults), names, n_defaults))


def gen_method(src, stats, name, params, doc, result=None, extra_inputs=(), n_defaults=0):
    """a method of `Mesh` without `while`: -> lines of `def <name> (self : Mesh) <params> : Except String (...)`"""
    fn = src.method('Mesh', name)
    check_params(fn, ['self'] + [p for p, _ in params], n_defaults)
    tr = Fn(src, stats, name, fn)
    env = {'self': Var('self', MESH)}
    sig = []
    for p, t in params:
        tr.name_ok(fn, p)
        env[p] = Var(p, t)
        env[p].readonly = True
        sig.append('(%s : %s)' % (p, lean_type(t)))
        for arr, inp in extra_inputs:
            if arr == p:
                tr.name_ok(fn, inp)
                tr.argsort_inputs[arr] = inp
                sig.append('(%s : List Nat)' % inp)
    tr.returned = False
    tr.emit(2, 'let mut self := self')
    tr.block(fn.body, env, 2, first=True)
    if result is None:
        if tr.returned:
            raise TranslationError('%s: returns a value' % name)
        tr.emit(2, 'return self')
        rt = 'Mesh'
    else:
        if not tr.returned or tr.ret_type != result:
            raise TranslationError('%s: does not return a value of type %s' % (name, result))
        rt = '(Mesh × %s)' % lean_type(result)
    stats.bump('functions')
    return (['/-- %s -/' % doc, 'def %s (self : Mesh) %s: Except String %s := do' % (name, ' '.join(sig) + (' ' if sig else ''), rt)]
            + tr.finish_lines())


def gen_grading(src, stats):
    """`refine_grading(sigma, K)`: `flag = True ...; while a or b: BODY` -> the body as one sweep that returns the loop
    condition, and the loop as a recursion on an explicit number of sweeps"""
    name = 'refine_grading'
    fn = src.method('Mesh', name)
    check_params(fn, ['self', 'sigma', 'K'], 2)
    body = [s for i, s in enumerate(fn.body)
            if not (i == 0 and isinstance(s, ast.Expr) and isinstance(s.value, ast.Constant) and isinstance(s.value.value, str))]
    loops = [s for s in body if isinstance(s, ast.While)]
    if len(loops) != 1 or any(isinstance(n, ast.While) for s in loops[0].body for n in ast.walk(s)):
        raise TranslationError('%s: exactly one (un-nested) while loop expected' % name)
    loop = loops[0]
    tr = Fn(src, stats, name, fn)
    if loop.orelse:
        tr.err(loop, 'while ... else')
    if not (isinstance(loop.test, ast.BoolOp) and isinstance(loop.test.op, ast.Or)
            and all(isinstance(v, ast.Name) for v in loop.test.values)):
        tr.err(loop, 'loop condition `a or b` over names expected')
    flags = [v.id for v in loop.test.values]
    k = body.index(loop)
    pre, post = body[:k], body[k + 1:]
    # before the loop: prints, flags set to True, pure assignments used by prints only; after it: prints only
    set_true = set()
    for s in pre:
        if tr.is_print(s):
            tr.check_print(s, {})
        elif isinstance(s, ast.Assign) and len(s.targets) == 1 and isinstance(s.targets[0], ast.Name) \
                and isinstance(s.value, ast.Constant) and s.value.value is True and s.targets[0].id in flags:
            set_true.add(s.targets[0].id)
        elif isinstance(s, ast.Assign) and len(s.targets) == 1 and isinstance(s.targets[0], ast.Name) \
                and ast.unparse(s.value) == 'len(self.leaf_elements)':
            nm = s.targets[0].id
            uses = [n for t in body for n in ast.walk(t) if isinstance(n, ast.Name) and n.id == nm and isinstance(n.ctx, ast.Load)]
            in_prints = [n for t in body if tr.is_print(t) for n in ast.walk(t) if isinstance(n, ast.Name) and n.id == nm]
            if len(uses) != len(in_prints):
                tr.err(s, 'a value computed before the loop is used outside of print')
            stats.bump('print_only_assignments_dropped')
        else:
            tr.err(s, 'unsupported statement before the while loop')
    if set_true != set(flags) or not flags:
        tr.err(loop, 'the loop flags must be set to True before the loop (the loop is entered)')
    for s in post:
        if not tr.is_print(s):
            tr.err(s, 'unsupported statement after the while loop')
        tr.check_print(s, {})
    for n in ast.walk(loop):
        if isinstance(n, (ast.Break, ast.Return)) and not any(n in ast.walk(f) for f in ast.walk(loop) if isinstance(f, ast.For)):
            tr.err(n, 'break / return out of the while loop')
    env = {'self': Var('self', MESH), 'sigma': Var('sigma', SIGMA), 'K': Var('K', RAT)}
    env['K'].readonly = True
    tr.sigma = 'sigma'
    tr.emit(2, 'let mut self := self')
    tr.block(loop.body, env, 2)
    for f in flags:
        if f not in env or not (isinstance(env[f].typ, tuple) and env[f].typ[0] == 'list'):
            tr.err(loop, 'the loop flag `%s` is not (re)bound to a list at the top level of the loop body' % f)
    again = ' || '.join('!%s.isEmpty' % f for f in flags)
    tr.emit(2, 'return (self, (%s))' % again)
    stats.bump('functions')
    stats.bump('while_loops')
    lines = ['/-- one pass of the `while %s:` loop of `Mesh.refine_grading(sigma, K)` with `sigma = p/q`; the second component'
             % ast.unparse(loop.test),
             'is the loop condition evaluated after the pass (the flags are `True` before the loop: it is entered) -/',
             'def refine_grading_sweep (self : Mesh) (p q : Nat) (K : Rat) : Except String (Mesh × Bool) := do'] + tr.finish_lines()
    lines += ['',
              '/-- `Mesh.refine_grading(sigma = p/q, K)` with an explicit bound on the number of passes of the `while` loop -/',
              'def refine_grading : Nat → Mesh → Nat → Nat → Rat → Except String Mesh',
              '  | 0, _, _, _, _ => .error "fuel"',
              '  | fuel + 1, self, p, q, K => do',
              '    let r ← refine_grading_sweep self p q K',
              '    if r.2 = true then refine_grading fuel r.1 p q K else pure r.1']
    return lines


def gen_prolongate(src, stats):
    """function `Prolongate(vec_coarse, elems_coarse, elems_fine)`; element references are indices here, the mesh they
    belong to (`self`) is an additional input: `elem.parent` is looked up in its parent table"""
    name = 'Prolongate'
    if name not in src.functions:
        raise TranslationError('function %s not found' % name)
    fn = src.functions[name]
    if fn.decorator_list:
        raise TranslationError('%s: decorator' % name)
    check_params(fn, ['vec_coarse', 'elems_coarse', 'elems_fine'])
    tr = Fn(src, stats, name, fn, has_self=False)
    tr.while_fuel = 'self.nElems + 1'
    tr.while_name = 'climb'
    env = {'self': Var('self', MESH)}
    for p, t in (('vec_coarse', RATS), ('elems_coarse', EIDS), ('elems_fine', EIDS)):
        env[p] = Var(p, t)
        env[p].readonly = True
    tr.returned = False
    tr.block(fn.body, env, 2, first=True)
    if not tr.returned or tr.ret_type != RATS:
        raise TranslationError('%s: does not return a vector' % name)
    stats.bump('functions')
    return (tr.helpers +
            ['/-- `Prolongate(vec_coarse, elems_coarse, elems_fine)`; `self` is the mesh the elements (given by their indices) belong',
             'to; the parent chain of an element of `self` has at most `self.nElems` links -/',
             'def Prolongate (self : Mesh) (vec_coarse : List Rat) (elems_coarse elems_fine : List Nat) : Except String (List Rat) := do']
            + tr.finish_lines())


def gen_meshparam(src, stats):
    """`MeshParametrized.__init__(gamma_space, initial_space_mesh=None, initial_time_mesh=[0, 1])`: the curve enters through
    `closed`, `pw_start`, `gamma_length`; `pw_gamma[i]` is the piece index `i`; `Mesh.__init__` is the model's `init`"""
    name = 'MeshParametrized.__init__'
    fn = src.method('MeshParametrized', '__init__')
    check_params(fn, ['self', 'gamma_space', 'initial_space_mesh', 'initial_time_mesh'], 2)
    if ast.unparse(fn.args.defaults[0]) != 'None':
        raise TranslationError('%s: default of initial_space_mesh' % name)
    bases = [ast.unparse(b) for b in src.classes['MeshParametrized'].bases]
    if bases != ['Mesh']:
        raise TranslationError('MeshParametrized: bases %s' % bases)
    # facts about other classes the bindings rely on
    el = src.method('Element', '__init__')
    if 'self.gamma_space = None' not in [ast.unparse(n) for n in ast.walk(el) if isinstance(n, ast.Assign)]:
        raise TranslationError('Element.__init__ no longer sets gamma_space = None for a root')
    if 'self.vertices = [edge.vertices[0] for edge in edges]' not in [ast.unparse(n) for n in el.body]:
        raise TranslationError('Element.__init__: vertex list changed')
    ptxt = open(os.path.join(os.path.dirname(os.path.dirname(os.path.join(src_repo(src), SRC_FILE))), 'src', 'parametrization.py')).read()
    ptree = ast.parse(ptxt)
    pc = [n for n in ptree.body if isinstance(n, ast.ClassDef) and n.name == 'PiecewiseParametrization']
    pin = [n for c in pc for n in c.body if isinstance(n, ast.FunctionDef) and n.name == '__init__']
    ptexts = [ast.unparse(n) for f in pin for n in f.body]
    for want in ('self.pw_start = pw_start', 'self.closed = closed', 'self.gamma_length = pw_start[-1]'):
        if want not in ptexts:
            raise TranslationError('PiecewiseParametrization.__init__ lacks `%s`' % want)
    tr = Fn(src, stats, name, fn)
    tr.is_constructor = True
    tr.available = {'uniform_refine', 'uniform_refine_space'}
    env = {'gamma_space': Var('gamma_space', GAMMA), 'initial_space_mesh': Var('initial_space_mesh', OPT_RATS),
           'initial_time_mesh': Var('initial_time_mesh', RATS)}
    env['initial_time_mesh'].readonly = True
    env['gamma_space'].readonly = True
    tr.returned = False
    tr.block(fn.body, env, 2, first=True)
    if tr.returned or 'self' not in env:
        raise TranslationError('%s: unexpected shape' % name)
    tr.emit(2, 'return self')
    stats.bump('functions')
    return (['/-- `MeshParametrized.__init__(gamma_space, initial_space_mesh, initial_time_mesh)`; the curve enters through',
             '`gamma_space.closed`, `gamma_space.pw_start`, `gamma_space.gamma_length` (`= pw_start[-1]`,',
             '`PiecewiseParametrization.__init__`); `gamma_space.pw_gamma[i]` is the piece index `i` (`Cell.piece`) -/',
             'def MeshParametrized_init (closed : Bool) (pw_start : List Rat) (gamma_length : Rat)',
             '    (initial_space_mesh : Option (List Rat)) (initial_time_mesh : List Rat) : Except String Mesh := do']
            + tr.finish_lines())


def src_repo(src):
    return src.repo


HEADER = '''/- GENERATED by translate/meshops.py from src/mesh.py -- do not edit.

Object model (trusted; see translate/meshops.py): `self` = a value of `Stbem.Mesh.Mesh` threaded through the calls; an
element reference = the `Cell` of its immutable fields (identity = `Cell.id`); `list(self.leaf_elements)` = `self.leaves`;
`elem.level_time/level_space` = `lt/lx`; `elem.h_t/h_x` = `t1 - t0` / `x1 - x0`; `self.refine_axis(elem, ax)` =
`refineAxisCall` (the model's `refineId`, returning the two children as cells); `elem.children` in a test = `hasChildren`
(no longer in the leaf collection), as a value = `childrenOf` (parent table `kids`); sorts = the stable `sortBy`;
`np.argsort` = an input; `np.sum` = `sumQ`; `x**sigma` with `sigma = p/q` inside comparisons = powers `^q` / `^p`;
assertion failures = `.error "assert:<tag>"`; `print` = nothing.  `Prolongate`: element references are indices, `elem.parent` =
`parentOf self id`, the dict comprehension = `dictOfEnumerate` (last insertion wins).  `MeshParametrized.__init__`: the curve
= (`closed`, `pw_start`, `gamma_length`), `pw_gamma[i]` = piece index `i`, `super().__init__` = `init`, `self.roots` =
`self.leaves` before any refinement, `self.vertices` = `self.verts`, `elem.gamma_space` of a root = a loop-local optional
piece index stored in the leaf by `setPiece`. -/
import Stbem.Model.Mesh
namespace Stbem.Gen.MeshOps
open Stbem.Mesh

/-! ### object model: the bindings the translated bodies refer to -/

/-- `assert c` -/
def assertThat (c : Prop) [Decidable c] (tag : String) : Except String Unit :=
  if c then pure () else .error tag

/-- `elem.children` in a boolean test: the element has been popped from `leaf_elements` -/
def hasChildren (self : Mesh) (elem : Cell) : Bool := (findLeaf self elem.id).isNone

/-- `elem.children` as a value: `[]` for an element without an entry in the parent table, else its two children in the
axis `ax` in which it was bisected -/
def childrenOf (self : Mesh) (elem : Cell) (ax : Ax) : List Cell :=
  match self.kids.find? (fun k => k.1 == elem.id) with
  | none => []
  | some k => [(children k.2.1 elem ax).1, (children k.2.1 elem ax).2]

/-- `self.refine_axis(elem, ax)` for a fixed axis: the model's `refineId`; returns `elem.children` -/
def refineAxisRef (self : Mesh) (elem : Cell) (ax : Ax) : Except String (Mesh × List Cell) :=
  match findLeaf self elem.id with
  | none => .error "assert:not-leaf"
  | some c => do
    let m ← refineId self c.id ax
    pure (m, [(children (m.nElems - 2) c ax).1, (children (m.nElems - 2) c ax).2])

/-- `self.refine_axis(elem, ax)` with the axis as a number (`assert 0 <= ax <= 1`) -/
def refineAxisCall (self : Mesh) (elem : Cell) (ax : Nat) : Except String (Mesh × List Cell) :=
  match ax with
  | 0 => refineAxisRef self elem .time
  | 1 => refineAxisRef self elem .space
  | _ => .error "assert:axis"

/-- `l[i]` -/
def getIdx {α} (l : List α) (i : Nat) : Except String α :=
  match l[i]? with
  | some a => pure a
  | none => .error "index"

/-- `enumerate(l)` -/
def enumerateFrom {α} : Nat → List α → List (Nat × α)
  | _, [] => []
  | k, a :: l => (k, a) :: enumerateFrom (k + 1) l
def enumerate {α} (l : List α) : List (Nat × α) := enumerateFrom 0 l

/-- `{k: v for v, k in enumerate(l)}` as the list of its (key, value) insertions in order -/
def dictOfEnumerate (l : List Nat) : List (Nat × Nat) := (enumerate l).map fun x => (x.2, x.1)

/-- `k in d` -/
def dictHas (d : List (Nat × Nat)) (k : Nat) : Bool := d.any fun x => x.1 == k

/-- `d[k]`: the LAST insertion for the key wins (`KeyError` -> `.error "key"`) -/
def dictGet (d : List (Nat × Nat)) (k : Nat) : Except String Nat :=
  match d.foldl (fun acc x => if x.1 == k then some x.2 else acc) none with
  | some v => pure v
  | none => .error "key"

/-- the element behind `elem.parent` (`None` is no element) -/
def optGet {α} (o : Option α) : Except String α :=
  match o with
  | some a => pure a
  | none => .error "none"

/-- `l[j] = v` -/
def listSet {α} (l : List α) (j : Nat) (v : α) : Except String (List α) :=
  if j < l.length then pure (l.set j v) else .error "index"

/-- `l[-1]` -/
def getLast {α} (l : List α) : Except String α :=
  match l.getLast? with
  | some a => pure a
  | none => .error "index"

/-- `elem.gamma_space = gamma_space.pw_gamma[i]` for a leaf `elem`: the piece index of that leaf -/
def setPiece (self : Mesh) (elem : Cell) (i : Nat) : Mesh :=
  { self with leaves := self.leaves.map fun c => if c.id == elem.id then { c with piece := i } else c }

/-- `marked[i].append(e)` for `marked = [[], []]` -/
def pairAppendAt (marked : List Cell × List Cell) (i : Nat) (e : Cell) : Except String (List Cell × List Cell) :=
  match i with
  | 0 => pure (marked.1 ++ [e], marked.2)
  | 1 => pure (marked.1, marked.2 ++ [e])
  | _ => .error "index"
'''


def generate_text(repo):
    src = Source(repo)
    stats = Stats()
    check_refine_axis(src)
    src.check_not_overridden({'refine_axis', 'refine_time', 'refine_space', 'refine', 'uniform_refine', 'uniform_refine_space',
                              'dorfler_refine_isotropic', 'dorfler_refine_anisotropic', 'refine_grading', 'leaf_elements'}
                             - {'leaf_elements'})
    out = [HEADER, '/-! ### the translated bodies -/', '']
    out += gen_method(src, stats, 'refine_time', [('elem', ELEM)], '`Mesh.refine_time(elem)`', result=ELEMS) + ['']
    out += gen_method(src, stats, 'refine_space', [('elem', ELEM)], '`Mesh.refine_space(elem)`', result=ELEMS) + ['']
    out += gen_method(src, stats, 'refine', [('elem', ELEM)], '`Mesh.refine(elem)`', result=ELEMS) + ['']
    out += gen_method(src, stats, 'uniform_refine', [], '`Mesh.uniform_refine()`') + ['']
    out += gen_method(src, stats, 'uniform_refine_space', [], '`Mesh.uniform_refine_space()`') + ['']
    out += gen_method(src, stats, 'dorfler_refine_isotropic', [('eta_sqr', RATS), ('theta', RAT)],
                      '`Mesh.dorfler_refine_isotropic(eta_sqr, theta)`; `s_idx` is the value of '
                      '`list(reversed(np.argsort(eta_sqr)))` (an input)', extra_inputs=[('eta_sqr', 's_idx')]) + ['']
    out += gen_method(src, stats, 'dorfler_refine_anisotropic', [('eta_sqr', RATS2), ('theta', RAT)],
                      '`Mesh.dorfler_refine_anisotropic(eta_sqr, theta)`; `eta_sqr` lists the rows of the `(N,2)` array') + ['']
    out += gen_grading(src, stats) + ['']
    out += gen_prolongate(src, stats) + ['']
    out += gen_meshparam(src, stats) + ['']
    out += ['end Stbem.Gen.MeshOps', '']
    return '\n'.join(out), stats.n


def generate(repo, gen_dir, write):
    text, stats = generate_text(repo)
    write(os.path.join(gen_dir, 'MeshOps.lean'), text)
    return stats


if __name__ == '__main__':
    sys.path.insert(0, os.path.join(os.path.dirname(os.path.abspath(__file__)), '..'))
    from harness.common import write_if_changed
    gen = os.path.join(os.path.dirname(os.path.abspath(__file__)), '..', 'lean', 'Stbem', 'Gen')
    if len(sys.argv) < 2:
        sys.exit('usage: meshops.py <repo> [--print]')
    if '--print' in sys.argv:
        t, s = generate_text(sys.argv[1])
        print(t)
        print(s, file=sys.stderr)
    else:
        print(generate(sys.argv[1], gen, write_if_changed))
