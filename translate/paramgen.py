#!/venv/bin/python
"""Translator: `src/parametrization.py` (ast) -> lean/Stbem/Gen/ParamGen.lean  (over `Rat`: Mathlib-free, executable, linked
into the driver) and lean/Stbem/Gen/ParamGenR.lean (the SAME translation emitted over `ℝ`, noncomputable; used for the circle).

Every function, class and method of the module is translated statement by statement or the translation fails
(`TranslationError` = broken obligation); nothing is guessed or defaulted:

  * module functions `circle`, `circle_project`, `line`, `line_project`, `central_derivative` -> Lean definitions of the same
    name; a nested `def` that is returned (the closures `fun` of `line` / `line_project`) -> a definition `<outer>_<inner>`
    whose first parameters are the captured variables (their values at the `return`, which is what Python's late binding
    sees because nothing is assigned afterwards), and one constructor of the callable type (`Gamma` / `Proj`) holding them;
  * the callable type `Gamma` = what may be stored in `pw_gamma`: the closure of `line` and the module function `circle`;
    `Gamma.call` dispatches to the translated bodies;
  * `PiecewiseParametrization` -> a structure with the fields `__init__` sets, `PiecewiseParametrization.init` (all four
    assertions, including the two numerical self checks), `PiecewiseParametrization.eval` (range assertion, single-piece
    shortcut, `np.select`);
  * `PiecewisePolygon.__init__` and every further subclass (`Circle`, `UnitSquare`, `PiSquare`, `LShape`, `UnitInterval`,
    any class added later whose `__init__` takes no arguments) -> `<Class>.init`, ending in the `super().__init__` call;
    `__repr__` -> `<Class>.repr : String`;
  * `for` loops (no `break` / `continue` / `return` inside) -> `List.foldlM` of a generated body function `<fn>.loop<k>` over the
    variables the body re-assigns; `l.append(e)` -> `l := l ++ [e]`; `assert` -> `assertThat … "assert:<tag>"`.
  * special functions and `np.pi` are PARAMETERS (`structure Fns`: `cos sin atan pi`); over `Rat` the driver runs the
    definitions with rational stand-ins, over `ℝ` the theorems instantiate them with Mathlib's functions.

Not translated, by design (named here, never skipped silently): the methods `plot` (matplotlib), `integrator` (quadrature
objects of src/quadrature.py / quadpy: C15, C08), `project` (empty body) and the script block `if __name__ == "__main__":`.

Arrays: a 1-D array is a `List K`, a 2-D array the list of its rows.  A Python scalar handed to a parameter that is used as
an array (`x_hat`) is the 1-element array (`npScalar`): NumPy returns the `(2, 1)` array in that case, the model the rows
`[[x], [y]]`.  Float literals are the exact rationals of their binary64 values.  Over `Rat`, `np.linalg.norm` is the exact
rational root or `.error "outside:irrational-norm"`; a float division by zero (NumPy: `nan` / `inf` with a warning) is
`.error "nan:division-by-zero"` — the float computation has left the exact model.
The NumPy semantics used (broadcasting `(n,)∘(k,1)`, `np.select`, `np.allclose`, `np.linspace`, …) is the prelude emitted with
the file: TRUSTED, documented function by function, executed against NumPy itself on every run (`gparam np …`).
"""
import ast
import os
import re
import sys
from fractions import Fraction

sys.path.insert(0, os.path.dirname(os.path.abspath(__file__)))
from panels import Consts, Stats, TranslationError  # noqa: E402

SRC_FILE = os.path.join('src', 'parametrization.py')

# methods that stay outside the model (named, never skipped silently)
EXTERNAL_METHODS = {'plot': 'matplotlib', 'integrator': 'quadrature objects (src/quadrature.py, quadpy)', 'project': 'empty body'}
# imports that only the untranslated methods may use
EXTERNAL_IMPORTS = {('quadrature', 'ProductScheme2D'), ('quadrature', 'gauss_quadrature_scheme')}

# declared parameter types (positional; the NAMES and DEFAULTS are taken from the source); result types are inferred
SIGS = {
    'circle': ['arr'],
    'circle_project': ['arr'],
    'line': ['arr', 'arr', 'rat'],
    'line.fun': ['arr'],
    'line_project': ['arr', 'arr', 'rat'],
    'line_project.fun': ['arr'],
    'central_derivative': ['fun_arr_mat', 'arr', 'rat'],
    'PiecewiseParametrization.__init__': ['ratlist', 'gammalist', 'bool'],
    'PiecewiseParametrization.eval': ['arr'],
    'PiecewisePolygon.__init__': ['arrlist', 'bool'],
}
# the callable types: which translated callables may be stored as data
CALLABLES = {'Gamma': ['line.fun', 'circle'], 'Proj': ['line_project.fun']}
BASE_CLASS = 'PiecewiseParametrization'

ASSERT_TAGS = {
    'self.pw_start[0] == 0 and self.gamma_length > 0': 'length',
    'np.allclose(self.eval(0), self.eval(self.gamma_length))': 'closed',
    'np.allclose(np.linalg.norm(gamma_deriv, axis=0), 1)': 'arclength',
    'np.all((0 <= x_hat) & (x_hat <= self.gamma_length))': 'range',
    'len(vertex) == 2': 'vertex-dim',
    'np.all(vertices[0] == vertices[-1])': 'closed-vertices',
    'np.all(gamma(pw_start[i]).flatten() == np.array(vertices[i]))': 'endpoint',
    'np.all(gamma(pw_start[i] + length).flatten() == np.array(vertices[i + 1]))': 'endpoint',
}

PRELUDE = r'''/-! ### Python / NumPy semantics used by the translated bodies
TRUSTED (not derived from the source): a 1-D array is a `List Rat`, a 2-D array is the list of its rows, a Python list is a
list.  Every definition names the behaviour it stands for; the array functions are executed against NumPy itself on every
run (driver `gparam np`, harness/param_tie.py).  Shapes: NumPy raises when the shapes of an element-wise operation cannot be
broadcast; the definitions below truncate instead.  The translated bodies only combine arrays whose shapes agree by
construction (rows of equal length, `(k, 1)` columns against `k` rows). -/
section NumPy
/-- `assert c` -/
def assertThat (c : Prop) [Decidable c] (tag : String) : Except String Unit :=
  if c then pure () else .error tag
/-- `l[i]` for `i ≥ 0` (`IndexError` -> `.error "index"`) -/
def pyIdx {α} (l : List α) (i : Nat) : Except String α :=
  match l[i]? with
  | some a => pure a
  | none => .error "index"
/-- `l[-1]` -/
def pyLast {α} (l : List α) : Except String α :=
  match l.getLast? with
  | some a => pure a
  | none => .error "index"
/-- `range(n)` -/
def pyRange (n : Nat) : List Nat := List.range n
/-- `sum` of the entries (the order of summation does not matter in exact arithmetic) -/
def npSum (a : List Rat) : Rat := a.foldr (· + ·) 0
/-- `np.array(a)` of a sequence of numbers / of a 1-D array: the same numbers in the same order -/
def npArray (a : List Rat) : List Rat := a
/-- `np.copy(a)` of a 1-D array -/
def npCopy (a : List Rat) : List Rat := a
/-- `np.copy(m)` of a 2-D array -/
def npCopyM (m : List (List Rat)) : List (List Rat) := m
/-- a Python scalar where the callee computes with an array: the 1-element array (NumPy keeps the axis of length 1) -/
def npScalar (c : Rat) : List Rat := [c]
/-- a vectorised function (`np.cos`, …) on a 1-D array: entry-wise -/
def npMap1 (f : Rat → Rat) (x : List Rat) : List Rat := x.map f
/-- what `np.vstack` makes of a 1-D argument: a single row -/
def npRow2d (a : List Rat) : List (List Rat) := [a]
/-- `np.vstack([m0, m1, …])` of 2-D arrays: the rows of `m0`, then the rows of `m1`, … -/
def npVstack (l : List (List (List Rat))) : List (List Rat) := l.flatten
/-- `c ∘ a`, scalar `c` (broadcast), 1-D array `a`: entry-wise `c ∘ a[i]` -/
def npSA (op : Rat → Rat → Rat) (c : Rat) (a : List Rat) : List Rat := a.map fun u => op c u
/-- `a ∘ c`, 1-D array `a`, scalar `c` (broadcast): entry-wise `a[i] ∘ c` -/
def npAS (op : Rat → Rat → Rat) (a : List Rat) (c : Rat) : List Rat := a.map fun u => op u c
/-- `a ∘ b`, 1-D arrays of the same length: entry-wise -/
def npAA (op : Rat → Rat → Rat) (a b : List Rat) : List Rat := List.zipWith op a b
/-- `m ∘ k`, 2-D arrays of the same shape: entry-wise -/
def npMM (op : Rat → Rat → Rat) (m k : List (List Rat)) : List (List Rat) := List.zipWith (List.zipWith op) m k
/-- `x ∘ c`, `x` of shape `(n,)`, `c` of shape `(k, 1)`: broadcast to `(k, n)` with entries `x[j] ∘ c[i, 0]` -/
def npBcAC (op : Rat → Rat → Rat) (x : List Rat) (c : List (List Rat)) : List (List Rat) :=
  c.map fun r => x.map fun u => op u (r.headD 0)
/-- `m ∘ c`, `m` of shape `(k, n)`, `c` of shape `(k, 1)`: entries `m[i, j] ∘ c[i, 0]` -/
def npBcMC (op : Rat → Rat → Rat) (m c : List (List Rat)) : List (List Rat) :=
  List.zipWith (fun row r => row.map fun u => op u (r.headD 0)) m c
/-- `np.dot(a, b)` of 1-D arrays: `Σ a[i]*b[i]` -/
def npDot (a b : List Rat) : Rat := npSum (List.zipWith (fun u v => u * v) a b)
/-- `m.flatten()` of a 2-D array: row after row -/
def npFlatten (m : List (List Rat)) : List Rat := m.flatten
/-- `a.reshape(2, 1)` of a 1-D array (`ValueError` unless it has 2 entries) -/
def npReshape21 (a : List Rat) : Except String (List (List Rat)) :=
  match a with
  | [u, v] => pure [[u], [v]]
  | _ => .error "reshape"
/-- `u / v` of floats that is not a division by a literal: NumPy yields `nan` / `inf` (and a warning) for `v = 0`; the exact
model stops there -/
def npDiv (u v : Rat) : Except String Rat := if v = 0 then .error "nan:division-by-zero" else pure (u / v)
/-- `a / c`, 1-D array by scalar -/
def npDivAS (a : List Rat) (c : Rat) : Except String (List Rat) :=
  if c = 0 then .error "nan:division-by-zero" else pure (a.map fun u => u / c)
/-- `m / c`, 2-D array by scalar -/
def npDivMS (m : List (List Rat)) (c : Rat) : Except String (List (List Rat)) :=
  if c = 0 then .error "nan:division-by-zero" else pure (m.map fun r => r.map fun u => u / c)
--NORM--
/-- `c <= a`, scalar against 1-D array: the boolean array -/
def npLeSA (c : Rat) (a : List Rat) : List Bool := a.map fun u => decide (c ≤ u)
/-- `a <= c`, 1-D array against scalar -/
def npLeAS (a : List Rat) (c : Rat) : List Bool := a.map fun u => decide (u ≤ c)
/-- `c < a` -/
def npLtSA (c : Rat) (a : List Rat) : List Bool := a.map fun u => decide (c < u)
/-- `a < c` -/
def npLtAS (a : List Rat) (c : Rat) : List Bool := a.map fun u => decide (u < c)
/-- `a == b` of 1-D arrays of the same length: the boolean array -/
def npEqAA (a b : List Rat) : List Bool := List.zipWith (fun u v => decide (u = v)) a b
/-- `p & q` of boolean arrays -/
def npAndB (a b : List Bool) : List Bool := List.zipWith (· && ·) a b
/-- `np.all(p)` -/
def npAll (a : List Bool) : Bool := a.all id
/-- `np.where(c, m, d)` with `c` of shape `(n,)` broadcast over the rows of the `(k, n)` arrays `m`, `d` -/
def npWhere (c : List Bool) (m d : List (List Rat)) : List (List Rat) :=
  List.zipWith (fun rm rd => List.zipWith (fun b uv => if b then uv.1 else uv.2) c (List.zip rm rd)) m d
/-- `np.select` from the last condition backwards: an earlier condition overrides a later one -/
def npSelectGo : List (List Bool) → List (List (List Rat)) → List (List Rat) → List (List Rat)
  | c :: cs, m :: ms, d => npWhere c m (npSelectGo cs ms d)
  | _, _, d => d
/-- `np.select(condlist, choicelist)` with conditions of shape `(n,)` and choices of shape `(k, n)`: column `j` of the result is
column `j` of the FIRST choice whose condition holds at `j`, and `0` if none does (`ValueError` for empty lists) -/
def npSelect (condlist : List (List Bool)) (choicelist : List (List (List Rat))) : Except String (List (List Rat)) :=
  match choicelist with
  | [] => .error "select:empty"
  | m :: _ => pure (npSelectGo condlist choicelist (m.map fun r => r.map fun _ => 0))
/-- `np.linspace(a, b)`: 50 points `a + k (b - a) / 49` -/
def npLinspace (a b : Rat) : List Rat := (List.range 50).map fun (k : Nat) => a + (k : Rat) * ((b - a) / 49)
/-- `abs` -/
def absQ (x : Rat) : Rat := if x < 0 then -x else x
/-- `np.allclose(m, k)` of 2-D arrays of the same shape: `|m - k| <= atol + rtol * |k|` everywhere, with the default
`atol = 1e-8`, `rtol = 1e-5` (exact values of the binary64 numbers) -/
def npAllcloseMM (m k : List (List Rat)) : Bool :=
  (List.zipWith (fun rm rk => (List.zipWith (fun u v => decide (absQ (u - v) ≤ c_atol + c_rtol * absQ v)) rm rk).all id) m k).all id
/-- the squared Euclidean norms of the columns of a 2-D array -/
def npColSumSq : List (List Rat) → List Rat
  | [] => []
  | [r] => r.map fun u => u * u
  | r :: rs => List.zipWith (fun u s => u * u + s) r (npColSumSq rs)
/-- `np.allclose(np.linalg.norm(m, axis=0), c)` for a literal `c > atol + rtol c`: decided WITHOUT the root, `|√s - c| <= tol`
iff `(c - tol)² <= s <= (c + tol)²` -/
def npAllcloseNormAxis0 (m : List (List Rat)) (c : Rat) : Bool :=
  (npColSumSq m).all fun s => decide ((c - (c_atol + c_rtol * absQ c)) ^ 2 ≤ s ∧ s ≤ (c + (c_atol + c_rtol * absQ c)) ^ 2)
end NumPy
'''

NORM_Q = r'''/-- integer square root (Newton's method with fuel; equal to `Nat.sqrt`, proved in Lemmas/ParamGenBasic.lean) -/
def natSqrtGo (n : Nat) : Nat → Nat → Nat
  | 0, g => g
  | f + 1, g => let next := (g + n / g) / 2; if next < g then natSqrtGo n f next else g
def natSqrt (n : Nat) : Nat :=
  if n ≤ 1 then n else natSqrtGo n (1 <<< (n.log2 / 2 + 1)) (1 <<< (n.log2 / 2 + 1))
/-- the non-negative rational root of a rational number, if there is one (the candidate is checked by squaring) -/
def ratSqrt? (q : Rat) : Option Rat :=
  let r := mkRat (natSqrt q.num.toNat) (natSqrt q.den)
  if 0 ≤ q ∧ r * r = q then some r else none
/-- `np.linalg.norm(v)` of a 1-D array, in exact arithmetic: defined when the root is rational -/
def npLinalgNorm (v : List Rat) : Except String Rat :=
  match ratSqrt? (npSum (v.map fun u => u * u)) with
  | some r => pure r
  | none => .error "outside:irrational-norm"'''

NORM_R = r'''/-- `np.linalg.norm(v)` of a 1-D array -/
def npLinalgNorm (v : List Rat) : Except String Rat := pure (Real.sqrt (npSum (v.map fun u => u * u)))'''

PRELUDE_NAMES = set(re.findall(r'^def (\w+\??)', PRELUDE + NORM_Q, re.M))

RESERVED = PRELUDE_NAMES | {
    'pure', 'List', 'Rat', 'Nat', 'Int', 'Bool', 'Option', 'Except', 'String', 'true', 'false', 'none', 'some', 'u', 'v', 'uv', 'r',
    'S', 'st', 'Fns', 'Gamma', 'Proj', 'g', 'init', 'call', 'repr', 'Real', 'Unit',
    'at', 'do', 'then', 'else', 'if', 'fun', 'let', 'have', 'show', 'from', 'end', 'in', 'match', 'with', 'where', 'by', 'open',
    'Type', 'Prop', 'Sort', 'def', 'theorem', 'example', 'namespace', 'section', 'variable', 'universe', 'import', 'return',
    'for', 'unless', 'try', 'catch', 'finally', 'mut', 'this', 'using', 'deriving', 'instance', 'structure', 'class', 'inductive',
    'abbrev', 'axiom', 'sorry', 'macro', 'syntax', 'notation', 'private', 'protected', 'partial', 'unsafe', 'nomatch', 'nofun',
    'calc', 'suffices', 'obtain', 'rcases', 'extends', 'mutual', 'attribute', 'export', 'set_option', 'infix', 'infixl',
    'infixr', 'prefix', 'postfix', 'noncomputable', 'local', 'scoped', 'omit', 'include', 'opaque', 'elab', 'termination_by',
    'decreasing_by', 'λ', 'Σ', 'Π',
}


# ---------------------------------------------------------------------------------------------------------
# types: ('rat',) ('lit', int) ('nat',) ('bool',) ('prop',) ('str',) ('unit',) ('arr',) ('barr',) ('mat', rows, cols)
#        ('list', T | None) ('callable', 'Gamma' | 'Proj') ('fun_arr_mat',) ('obj',) ('pair', T1, T2)
def ty_of_sig(name):
    return {'arr': ('arr', ), 'rat': ('rat', ), 'bool': ('bool', ), 'ratlist': ('list', ('rat', )),
            'arrlist': ('list', ('arr', )), 'gammalist': ('list', ('callable', 'Gamma')), 'fun_arr_mat': ('fun_arr_mat', )}[name]


def lean_type(t):
    k = t[0]
    if k in ('rat', 'lit'):
        return 'Rat'
    if k == 'nat':
        return 'Nat'
    if k == 'bool':
        return 'Bool'
    if k == 'str':
        return 'String'
    if k == 'unit':
        return 'Unit'
    if k == 'arr':
        return 'List Rat'
    if k == 'barr':
        return 'List Bool'
    if k == 'mat':
        return 'List (List Rat)'
    if k == 'list':
        if t[1] is None:
            raise TranslationError('internal: list of unknown element type')
        return 'List %s' % paren(lean_type(t[1]))
    if k == 'callable':
        return t[1]
    if k == 'fun_arr_mat':
        return 'List Rat → Except String (List (List Rat))'
    if k == 'obj':
        return BASE_CLASS
    if k == 'pair':
        return '%s × %s' % (paren(lean_type(t[1])), paren(lean_type(t[2])))
    raise TranslationError('internal: no Lean type for %r' % (t, ))


def paren(code):
    code = code.strip()
    if re.fullmatch(r'[\w.?]+', code):
        return code
    if code[0] == '(' and _matching(code, '(', ')') == len(code) - 1:
        return code
    if code[0] == '[' and _matching(code, '[', ']') == len(code) - 1:
        return code
    return '(' + code + ')'


def _matching(code, o, c):
    depth = 0
    for i, ch in enumerate(code):
        if ch == o:
            depth += 1
        elif ch == c:
            depth -= 1
            if depth == 0:
                return i
    return -1


def lean_num(v):
    fr = Fraction(v)
    if fr.denominator == 1:
        return '(%d : Rat)' % fr.numerator if fr.numerator >= 0 else '(-%d : Rat)' % -fr.numerator
    if fr.numerator < 0:
        return '(-((%d : Rat) / %d))' % (-fr.numerator, fr.denominator)
    return '((%d : Rat) / %d)' % (fr.numerator, fr.denominator)


def same_type(a, b):
    """equality of types up to unknown shapes"""
    if a[0] == 'lit' and b[0] in ('rat', 'lit') or b[0] == 'lit' and a[0] == 'rat':
        return True
    if a[0] != b[0]:
        return False
    if a[0] == 'mat':
        return all(x is None or y is None or x == y for x, y in zip(a[1:], b[1:]))
    if a[0] in ('list', ):
        return a[1] is None or b[1] is None or same_type(a[1], b[1])
    if a[0] == 'pair':
        return same_type(a[1], b[1]) and same_type(a[2], b[2])
    return a == b


def tuple_acc(prefix, k, n):
    """component k of the right-nested n-tuple `prefix`"""
    if n == 1:
        return prefix
    return prefix + '.' + '.'.join(['2'] * k + (['1'] if k < n - 1 else []))


class TrackEnv(dict):
    """environment of a loop body: records which names of the enclosing scope are read"""
    def __init__(self, outer, used):
        super().__init__(outer)
        self.outer_names = set(outer)
        self.used = used
        self.local = set()

    def __getitem__(self, k):
        if k in self.outer_names and k not in self.local and k not in self.used:
            self.used.append(k)
        return super().__getitem__(k)

    def __setitem__(self, k, v):
        self.local.add(k)
        super().__setitem__(k, v)


class DefInfo:
    def __init__(self, lean, params, ret, monadic, needsS, doc=''):
        self.lean, self.params, self.ret, self.monadic, self.needsS, self.doc = lean, params, ret, monadic, needsS, doc
        self.defaults = {}


# ---------------------------------------------------------------------------------------------------------
class Fn:
    """translator of one function body"""
    def __init__(self, gen, fname, cls=None, outer=None):
        self.gen, self.fname, self.cls = gen, fname, cls
        self.stats, self.consts = gen.stats, gen.consts
        self.stmts = []          # current statement list (kind, …)
        self.monadic = False
        self.needsS = False
        self.ntmp = outer.ntmp if outer else [0]
        self.ret_type = None
        self.nested = {}         # name -> FunctionDef of a nested def
        self.nloops = outer.nloops if outer else [0]
        self.root = outer.root if outer else self
        self.aux = outer.aux if outer else []    # auxiliary definitions (loop bodies, closures) to emit before this one
        self.in_loop = outer is not None
        self.empty_decl = {}
        self.self_ready = True
        self.pending_fields = None

    # ---- helpers ---------------------------------------------------------------------------------------
    def err(self, node, msg):
        raise TranslationError('%s line %s: %s: `%s`' % (self.fname, getattr(node, 'lineno', '?'), msg, self.gen.seg(node)[:160]))

    def tmp(self):
        self.ntmp[0] += 1
        return 't%d' % self.ntmp[0]

    def lean_name(self, node, name):
        if name in RESERVED or re.fullmatch(r't\d+', name) or name.startswith('c_') or name.startswith('np') or name.startswith('py') \
                or not name.isidentifier() or not name.isascii() or name in self.gen.funcs or name in self.gen.classes:
            self.err(node, 'the local name `%s` cannot be used as a Lean name here' % name)
        return name

    def bindm(self, code):
        """`let t ← code`; returns t"""
        t = self.tmp()
        self.stmts.append(('bind', t, code))
        self.monadic = True
        return t

    # ---- constants -------------------------------------------------------------------------------------
    def const_value(self, node):
        if isinstance(node, ast.Constant) and isinstance(node.value, (int, float)) and not isinstance(node.value, bool):
            return node.value
        if isinstance(node, ast.UnaryOp) and isinstance(node.op, ast.USub):
            v = self.const_value(node.operand)
            return None if v is None else -v
        if isinstance(node, ast.BinOp):
            a, b = self.const_value(node.left), self.const_value(node.right)
            if a is None or b is None:
                return None
            try:
                if isinstance(node.op, ast.Add):
                    return a + b
                if isinstance(node.op, ast.Sub):
                    return a - b
                if isinstance(node.op, ast.Mult):
                    return a * b
                if isinstance(node.op, ast.Div):
                    return a / b
            except ZeroDivisionError:
                self.err(node, 'constant division by zero')
        return None

    def const(self, node, v):
        if isinstance(v, int):
            return (v, ('lit', v))
        if v != v or v in (float('inf'), float('-inf')):
            self.err(node, 'non-finite constant')
        text = self.gen.seg(node)
        what = 'binary64 value of the literal `%s`' % text if isinstance(node, ast.Constant) else \
            'binary64 value of the constant expression `%s` (folded with float arithmetic, as Python does)' % text
        self.stats.bump('float_constants')
        return (self.consts.add(text, v, what), ('rat', ))

    # ---- coercions -------------------------------------------------------------------------------------
    def rat(self, node, v):
        if v[1][0] == 'rat':
            return v[0]
        if v[1][0] == 'lit':
            return lean_num(v[1][1])
        self.err(node, 'number expected, got %s' % v[1][0])

    def nat(self, node, v):
        if v[1][0] == 'nat':
            return v[0]
        if v[1][0] == 'lit' and v[1][1] >= 0:
            return str(v[1][1])
        self.err(node, 'non-negative integer expected, got %s' % v[1][0])

    def coerce(self, node, v, want, what='argument'):
        k = want[0]
        if k == 'rat':
            return self.rat(node, v)
        if k == 'arr':
            if v[1][0] == 'arr':
                return v[0]
            if v[1][0] in ('rat', 'lit'):
                self.stats.bump('scalar_as_array')
                return '(npScalar %s)' % paren(self.rat(node, v))
            self.err(node, '%s: 1-D array (or scalar) expected, got %s' % (what, v[1][0]))
        if k == 'list':
            if v[1][0] != 'list':
                self.err(node, '%s: list expected, got %s' % (what, v[1][0]))
            if v[1][1] is None:
                return '([] : %s)' % lean_type(want)
            if want[1][0] == 'rat' and v[1][1][0] in ('rat', 'lit') or same_type(v[1][1], want[1]):
                return v[0]
            self.err(node, '%s: list of %s expected, got list of %s' % (what, want[1][0], v[1][1][0]))
        if k == 'fun_arr_mat':
            if v[1][0] != 'fun_arr_mat':
                self.err(node, '%s: a callable array -> 2-D array expected, got %s' % (what, v[1][0]))
            return v[0]
        if not same_type(v[1], want):
            self.err(node, '%s: %s expected, got %s' % (what, want[0], v[1][0]))
        return v[0]

    # ---- expressions -----------------------------------------------------------------------------------
    def expr(self, node, env):
        cv = self.const_value(node)
        if cv is not None:
            return self.const(node, cv)
        if isinstance(node, ast.Constant):
            if isinstance(node.value, bool):
                return ('true' if node.value else 'false', ('bool', ))
            if isinstance(node.value, str):
                return ('"%s"' % node.value.replace('\\', '\\\\').replace('"', '\\"'), ('str', ))
            self.err(node, 'unsupported constant')
        if isinstance(node, ast.Name):
            if node.id in env:
                return env[node.id]
            if node.id in self.nested:
                self.err(node, 'a nested function may only be returned')
            alt = self.gen.callable_alt(node.id)
            if alt is not None:
                # a module function used as a value: the constructor of the callable type
                if node.id not in self.gen.defs:
                    self.err(node, 'the function %s is used before its definition' % node.id)
                self.stats.bump('function_values')
                return ('%s.of_%s' % (alt, node.id), ('callable', alt))
            self.err(node, 'unknown name')
        if isinstance(node, ast.Attribute):
            return self.attribute(node, env)
        if isinstance(node, ast.Subscript):
            return self.subscript(node, env)
        if isinstance(node, ast.List):
            return self.list_display(node, env)
        if isinstance(node, ast.Tuple):
            if len(node.elts) != 2:
                self.err(node, 'only pairs are supported')
            a, b = self.expr(node.elts[0], env), self.expr(node.elts[1], env)
            a = (self.rat(node, a), ('rat', )) if a[1][0] == 'lit' else a
            b = (self.rat(node, b), ('rat', )) if b[1][0] == 'lit' else b
            return ('(%s, %s)' % (a[0], b[0]), ('pair', a[1], b[1]))
        if isinstance(node, ast.UnaryOp):
            if isinstance(node.op, ast.USub):
                v = self.expr(node.operand, env)
                if v[1][0] in ('rat', 'lit'):
                    return ('(-%s)' % self.rat(node, v), ('rat', ))
                self.err(node, 'unary minus of %s' % v[1][0])
            if isinstance(node.op, ast.Not):
                return ('(¬ %s)' % self.cond(node.operand, env), ('prop', ))
            self.err(node, 'unsupported unary operator')
        if isinstance(node, ast.BinOp):
            return self.binop(node, env)
        if isinstance(node, ast.Compare):
            return self.compare(node, env)
        if isinstance(node, ast.BoolOp):
            return (self.cond(node, env), ('prop', ))
        if isinstance(node, ast.Call):
            return self.call(node, env)
        self.err(node, 'unsupported expression')

    def attribute(self, node, env):
        if ast.unparse(node) == 'np.pi':
            self.needsS = True
            self.stats.bump('special_functions')
            return ('S.pi', ('rat', ))
        if isinstance(node.value, ast.Name) and node.value.id == 'self' and 'self' in env:
            ci = self.cls
            if self.pending_fields is not None:
                # inside the leading field assignments of `__init__`: the value assigned so far
                for f, t, c in self.pending_fields:
                    if f == node.attr:
                        return (c, t)
                self.err(node, 'the field is read before it is assigned')
            base = self.gen.classes[BASE_CLASS]
            for f, t in base.fields:
                if f == node.attr:
                    self.stats.bump('field_reads')
                    return ('%s.%s' % (env['self'][0], f), t)
            m = self.gen.method_def(ci, node.attr) if ci else None
            if m is not None:
                # bound method as a value: only as a callable array -> 2-D array
                if [p[1][0] for p in m.params] != ['arr'] or m.ret[0] != 'mat':
                    self.err(node, 'a bound method can only be passed where a callable array -> 2-D array is expected')
                self.needsS = self.needsS or m.needsS
                body = '%s %s%s x' % (m.lean, 'S ' if m.needsS else '', env['self'][0])
                return ('(fun x => %s)' % (body if m.monadic else 'pure (%s)' % body), ('fun_arr_mat', ))
            self.err(node, 'the object has no data field / translated method `%s`' % node.attr)
        self.err(node, 'unsupported attribute')

    def subscript(self, node, env):
        v = self.expr(node.value, env)
        idx = node.slice
        k = v[1][0]
        if k == 'list':
            if v[1][1] is None:
                self.err(node, 'subscript of a list whose element type is not known')
            et = v[1][1]
        elif k == 'arr':
            et = ('rat', )
        elif k == 'mat':
            et = ('arr', )
        else:
            self.err(node, 'subscript of %s' % k)
        self.stats.bump('index_reads')
        if isinstance(idx, ast.UnaryOp) and isinstance(idx.op, ast.USub) and isinstance(idx.operand, ast.Constant) and idx.operand.value == 1 \
                and not isinstance(idx.operand.value, bool):
            return (self.bindm('pyLast %s' % paren(v[0])), et)
        i = self.expr(idx, env)
        return (self.bindm('pyIdx %s %s' % (paren(v[0]), paren(self.nat(node, i)))), et)

    def list_display(self, node, env):
        if any(isinstance(e, ast.Starred) for e in node.elts):
            self.err(node, 'starred list element')
        if not node.elts:
            return ('[]', ('list', None))
        vs = [self.expr(e, env) for e in node.elts]
        if all(v[1][0] in ('rat', 'lit') for v in vs):
            return ('[%s]' % ', '.join(self.rat(node, v) for v in vs), ('list', ('rat', )))
        t0 = vs[0][1]
        if all(same_type(v[1], t0) for v in vs) and t0[0] in ('arr', 'callable', 'mat', 'barr'):
            return ('[%s]' % ', '.join(v[0] for v in vs), ('list', t0))
        self.err(node, 'list of %s' % [v[1][0] for v in vs])

    OPS = {ast.Add: '+', ast.Sub: '-', ast.Mult: '*', ast.Div: '/'}

    def binop(self, node, env):
        if isinstance(node.op, ast.BitAnd):
            a, b = self.expr(node.left, env), self.expr(node.right, env)
            if a[1][0] == 'barr' and b[1][0] == 'barr':
                return ('(npAndB %s %s)' % (paren(a[0]), paren(b[0])), ('barr', ))
            self.err(node, '& of %s and %s' % (a[1][0], b[1][0]))
        op = self.OPS.get(type(node.op))
        if op is None:
            self.err(node, 'unsupported binary operator')
        a, b = self.expr(node.left, env), self.expr(node.right, env)
        ta, tb = a[1][0], b[1][0]
        num = ('rat', 'lit')
        if 'nat' in (ta, tb) and ta in ('nat', 'lit') and tb in ('nat', 'lit'):
            if op == '+':
                return ('(%s + %s)' % (self.nat(node, a), self.nat(node, b)), ('nat', ))
            if op == '-' and tb == 'lit':
                return ('(%s - %s)' % (self.nat(node, a), self.nat(node, b)), ('natsub', ))
            self.err(node, 'integer operator %s' % op)
        self.stats.bump('arith_ops')
        if op == '/':
            # a division whose denominator is not a non-zero literal can be a float division by zero
            if tb == 'lit' and b[1][1] != 0 and ta in num:
                return ('(%s / %s)' % (self.rat(node, a), self.rat(node, b)), ('rat', ))
            if tb not in num:
                self.err(node, 'division by %s' % tb)
            d = paren(self.rat(node, b))
            if ta in num:
                return (self.bindm('npDiv %s %s' % (paren(self.rat(node, a)), d)), ('rat', ))
            if ta == 'arr':
                return (self.bindm('npDivAS %s %s' % (paren(a[0]), d)), ('arr', ))
            if ta == 'mat':
                return (self.bindm('npDivMS %s %s' % (paren(a[0]), d)), a[1])
            self.err(node, 'division of %s' % ta)
        f = '(· %s ·)' % op
        if ta in num and tb in num:
            return ('(%s %s %s)' % (self.rat(node, a), op, self.rat(node, b)), ('rat', ))
        if ta in num and tb == 'arr':
            return ('(npSA %s %s %s)' % (f, paren(self.rat(node, a)), paren(b[0])), ('arr', ))
        if ta == 'arr' and tb in num:
            return ('(npAS %s %s %s)' % (f, paren(a[0]), paren(self.rat(node, b))), ('arr', ))
        if ta == 'arr' and tb == 'arr':
            return ('(npAA %s %s %s)' % (f, paren(a[0]), paren(b[0])), ('arr', ))
        if ta == 'arr' and tb == 'mat' and b[1][2] == 1:
            return ('(npBcAC %s %s %s)' % (f, paren(a[0]), paren(b[0])), ('mat', b[1][1], None))
        if ta == 'mat' and tb == 'mat':
            if b[1][2] == 1 and a[1][2] != 1:
                if a[1][1] is not None and b[1][1] is not None and a[1][1] != b[1][1]:
                    self.err(node, 'shapes (%s, n) and (%s, 1)' % (a[1][1], b[1][1]))
                return ('(npBcMC %s %s %s)' % (f, paren(a[0]), paren(b[0])), ('mat', a[1][1] or b[1][1], a[1][2]))
            if a[1][2] == b[1][2]:
                return ('(npMM %s %s %s)' % (f, paren(a[0]), paren(b[0])), ('mat', a[1][1] or b[1][1], a[1][2]))
        self.err(node, 'operator %s on %s%s and %s%s' % (op, ta, a[1][1:], tb, b[1][1:]))

    def compare(self, node, env):
        """a comparison: of numbers -> ('prop'), involving a 1-D array -> boolean array"""
        if len(node.ops) == 1:
            a, b = self.expr(node.left, env), self.expr(node.comparators[0], env)
            ta, tb = a[1][0], b[1][0]
            op = type(node.ops[0])
            num = ('rat', 'lit')
            if 'arr' in (ta, tb):
                self.stats.bump('array_comparisons')
                if ta in num and tb == 'arr' and op in (ast.LtE, ast.Lt):
                    return ('(%s %s %s)' % ('npLeSA' if op is ast.LtE else 'npLtSA', paren(self.rat(node, a)), paren(b[0])), ('barr', ))
                if ta == 'arr' and tb in num and op in (ast.LtE, ast.Lt):
                    return ('(%s %s %s)' % ('npLeAS' if op is ast.LtE else 'npLtAS', paren(a[0]), paren(self.rat(node, b))), ('barr', ))
                if ta == 'arr' and tb == 'arr' and op is ast.Eq:
                    return ('(npEqAA %s %s)' % (paren(a[0]), paren(b[0])), ('barr', ))
                self.err(node, 'comparison %s of %s and %s' % (op.__name__, ta, tb))
            return (self.cmp1(node, node.ops[0], a, b), ('prop', ))
        return (self.cond(node, env), ('prop', ))

    def cmp1(self, node, op, a, b):
        sym = {ast.Eq: '=', ast.NotEq: '≠', ast.Lt: '<', ast.LtE: '≤', ast.Gt: '>', ast.GtE: '≥'}.get(type(op))
        if sym is None:
            self.err(node, 'unsupported comparison operator')
        if 'nat' in (a[1][0], b[1][0]):
            return '(%s %s %s)' % (self.nat(node, a), sym, self.nat(node, b))
        if a[1][0] == 'bool' and b[1][0] == 'bool':
            return '(%s %s %s)' % (a[0], sym, b[0])
        return '(%s %s %s)' % (self.rat(node, a), sym, self.rat(node, b))

    def cond(self, node, env):
        if isinstance(node, ast.BoolOp):
            op = ' ∧ ' if isinstance(node.op, ast.And) else ' ∨ '
            parts = []
            for k, v in enumerate(node.values):
                n0 = len(self.stmts)
                parts.append(self.cond(v, env))
                if k > 0 and len(self.stmts) != n0:
                    self.err(v, 'an operand of and/or that can raise is only supported in the first position (short-circuit order)')
            return '(' + op.join(parts) + ')'
        if isinstance(node, ast.UnaryOp) and isinstance(node.op, ast.Not):
            return '(¬ %s)' % self.cond(node.operand, env)
        if isinstance(node, ast.Compare) and len(node.ops) > 1:
            parts, left = [], self.expr(node.left, env)
            for op, right in zip(node.ops, node.comparators):
                n0 = len(self.stmts)
                r = self.expr(right, env)
                if parts and len(self.stmts) != n0:
                    self.err(node, 'a chained comparison whose later operands can raise is not supported')
                if 'arr' in (left[1][0], r[1][0]):
                    self.err(node, 'chained comparison of arrays')
                parts.append(self.cmp1(node, op, left, r))
                left = r
            return '(' + ' ∧ '.join(parts) + ')'
        v = self.expr(node, env)
        if v[1][0] == 'bool':
            return '(%s = true)' % v[0]
        if v[1][0] == 'prop':
            return v[0]
        self.err(node, 'not a condition (type %s): truthiness of numbers / arrays is not supported' % v[1][0])

    # ---- calls -----------------------------------------------------------------------------------------
    def np_name(self, f):
        """`np.a.b` -> 'a.b'"""
        parts = []
        while isinstance(f, ast.Attribute):
            parts.append(f.attr)
            f = f.value
        if isinstance(f, ast.Name) and f.id == 'np' and parts:
            return '.'.join(reversed(parts))
        return None

    def call(self, node, env):
        f = node.func
        if any(isinstance(a, ast.Starred) for a in node.args) or any(k.arg is None for k in node.keywords):
            self.err(node, 'star arguments are not supported')
        npf = self.np_name(f)
        if npf is not None:
            return self.np_call(node, npf, env)
        if isinstance(f, ast.Attribute):
            # method calls
            if isinstance(f.value, ast.Name) and f.value.id == 'self' and 'self' in env:
                m = self.gen.method_def(self.cls, f.attr) if self.cls else None
                if m is None:
                    self.err(node, 'call of an unknown / untranslated method')
                if self.pending_fields is not None:
                    self.err(node, 'method call before all fields are assigned')
                return self.apply_def(node, m, node.args, node.keywords, env, self_code=env['self'][0])
            if f.attr == 'reshape':
                v = self.expr(f.value, env)
                if v[1][0] != 'arr' or node.keywords or [self.const_value(a) for a in node.args] != [2, 1]:
                    self.err(node, 'only <1-D array>.reshape(2, 1) is supported')
                self.stats.bump('numpy_calls')
                return (self.bindm('npReshape21 %s' % paren(v[0])), ('mat', 2, 1))
            if f.attr == 'flatten':
                v = self.expr(f.value, env)
                if v[1][0] != 'mat' or node.args or node.keywords:
                    self.err(node, 'only <2-D array>.flatten() is supported')
                self.stats.bump('numpy_calls')
                return ('(npFlatten %s)' % paren(v[0]), ('arr', ))
            self.err(node, 'unsupported method call')
        if isinstance(f, ast.Name):
            name = f.id
            if name in env:
                return self.call_value(node, env[name], env)
            if name == 'len' and len(node.args) == 1 and not node.keywords:
                a = self.expr(node.args[0], env)
                if a[1][0] not in ('arr', 'list'):
                    self.err(node, 'len of %s' % a[1][0])
                return ('%s.length' % paren(a[0]), ('nat', ))
            if name in self.nested:
                self.err(node, 'a nested function may only be returned, not called')
            if name in self.gen.funcs:
                if name not in self.gen.defs:
                    self.err(node, 'the function %s is called before its definition' % name)
                return self.apply_def(node, self.gen.defs[name], node.args, node.keywords, env)
            self.err(node, 'call of unknown function')
        if isinstance(f, ast.Subscript):
            return self.call_value(node, self.expr(f, env), env)
        self.err(node, 'unsupported call')

    def call_value(self, node, fv, env):
        """call of a value: an element of a callable type or a function-typed parameter"""
        if node.keywords or len(node.args) != 1:
            self.err(node, 'a callable value is called with exactly one positional argument')
        if fv[1][0] == 'callable':
            d = self.gen.call_defs.get(fv[1][1])
            if d is None:
                self.err(node, 'a value of type %s is called before all its alternatives are defined' % fv[1][1])
            x = self.coerce(node, self.expr(node.args[0], env), d.params[0][1])
            self.needsS = self.needsS or d.needsS
            self.stats.bump('callable_calls')
            code = '%s.call %s%s' % (paren(fv[0]), 'S ' if d.needsS else '', paren(x))
            return (self.bindm(code), d.ret) if d.monadic else ('(%s)' % code, d.ret)
        if fv[1][0] == 'fun_arr_mat':
            x = self.coerce(node, self.expr(node.args[0], env), ('arr', ))
            self.stats.bump('callable_calls')
            return (self.bindm('%s %s' % (fv[0], paren(x))), ('mat', None, None))
        self.err(node, 'call of a value of type %s' % fv[1][0])

    def apply_def(self, node, d, args, keywords, env, self_code=None):
        names = [p for p, _ in d.params]
        vals = {}
        if len(args) > len(names):
            self.err(node, 'too many arguments')
        for p, a in zip(names, args):
            vals[p] = a
        for k in keywords:
            if k.arg not in names or k.arg in vals:
                self.err(node, 'unexpected keyword argument %s' % k.arg)
            vals[k.arg] = k.value
        # Python evaluates the arguments in the order they are written
        order = list(args) + [k.value for k in keywords]
        computed = {id(a): self.expr(a, env) for a in order}
        codes = []
        for p, t in d.params:
            if p in vals:
                codes.append(paren(self.coerce(node, computed[id(vals[p])], t, 'argument %s' % p)))
            elif p in d.defaults:
                codes.append(paren(self.coerce(node, self.expr(d.defaults[p], {}), t, 'default of %s' % p)))
                self.stats.bump('default_arguments')
            else:
                self.err(node, 'argument %s is missing' % p)
        self.needsS = self.needsS or d.needsS
        self.stats.bump('calls')
        code = ' '.join([d.lean] + (['S'] if d.needsS else []) + ([self_code] if self_code else []) + codes)
        if d.monadic:
            return (self.bindm(code), d.ret)
        return ('(%s)' % code, d.ret)

    def np_call(self, node, name, env):
        args, kws = node.args, {k.arg: k.value for k in node.keywords}
        self.stats.bump('numpy_calls')

        def plain(n):
            if kws or len(args) != n:
                self.err(node, 'np.%s with %d positional argument(s) expected' % (name, n))

        if name in ('cos', 'sin', 'atan', 'arctan'):
            plain(1)
            fn = 'S.%s' % {'arctan': 'atan'}.get(name, name)
            self.needsS = True
            self.stats.bump('special_functions')
            v = self.expr(args[0], env)
            if v[1][0] in ('rat', 'lit'):
                return ('(%s %s)' % (fn, paren(self.rat(node, v))), ('rat', ))
            if v[1][0] == 'arr':
                return ('(npMap1 %s %s)' % (fn, paren(v[0])), ('arr', ))
            self.err(node, 'np.%s of %s' % (name, v[1][0]))
        if name == 'vstack':
            plain(1)
            if not isinstance(args[0], ast.List) or not args[0].elts:
                self.err(node, 'np.vstack([...]) of a list display expected')
            parts, rows = [], 0
            for e in args[0].elts:
                v = self.expr(e, env)
                if v[1][0] == 'arr':
                    parts.append('npRow2d %s' % paren(v[0]))
                    rows = None if rows is None else rows + 1
                elif v[1][0] == 'mat' and v[1][2] is None:
                    parts.append(v[0])
                    rows = None if rows is None or v[1][1] is None else rows + v[1][1]
                else:
                    self.err(node, 'np.vstack of %s' % (v[1], ))
            return ('(npVstack [%s])' % ', '.join(parts), ('mat', rows, None))
        if name == 'linalg.norm':
            plain(1)
            v = self.expr(args[0], env)
            if v[1][0] != 'arr':
                self.err(node, 'np.linalg.norm of %s (only a 1-D array; axis=0 only inside np.allclose(…, <literal>))' % v[1][0])
            return (self.bindm('npLinalgNorm %s' % paren(v[0])), ('rat', ))
        if name == 'copy':
            plain(1)
            v = self.expr(args[0], env)
            if v[1][0] == 'arr':
                return ('(npCopy %s)' % paren(v[0]), v[1])
            if v[1][0] == 'mat':
                return ('(npCopyM %s)' % paren(v[0]), v[1])
            self.err(node, 'np.copy of %s' % v[1][0])
        if name == 'dot':
            plain(2)
            a, b = self.expr(args[0], env), self.expr(args[1], env)
            if a[1][0] != 'arr' or b[1][0] != 'arr':
                self.err(node, 'np.dot of %s and %s' % (a[1][0], b[1][0]))
            return ('(npDot %s %s)' % (paren(a[0]), paren(b[0])), ('rat', ))
        if name == 'array':
            plain(1)
            v = self.expr(args[0], env)
            if v[1][0] == 'arr' or (v[1][0] == 'list' and v[1][1] == ('rat', )):
                return ('(npArray %s)' % paren(v[0]), ('arr', ))
            self.err(node, 'np.array of %s' % (v[1], ))
        if name == 'all':
            plain(1)
            v = self.expr(args[0], env)
            if v[1][0] != 'barr':
                self.err(node, 'np.all of %s' % v[1][0])
            return ('(npAll %s)' % paren(v[0]), ('bool', ))
        if name == 'allclose':
            plain(2)
            a0 = args[0]
            if isinstance(a0, ast.Call) and self.np_name(a0.func) == 'linalg.norm':
                # np.allclose(np.linalg.norm(m, axis=0), <literal>)
                if len(a0.args) != 1 or [(k.arg, self.const_value(k.value)) for k in a0.keywords] != [('axis', 0)]:
                    self.err(node, 'np.allclose(np.linalg.norm(m, axis=0), c) expected')
                m = self.expr(a0.args[0], env)
                c = self.const_value(args[1])
                if m[1][0] != 'mat' or not isinstance(c, int) or c < 1:
                    self.err(node, 'np.allclose(np.linalg.norm(<2-D array>, axis=0), <positive int literal>) expected')
                return ('(npAllcloseNormAxis0 %s %s)' % (paren(m[0]), lean_num(c)), ('bool', ))
            a, b = self.expr(args[0], env), self.expr(args[1], env)
            if a[1][0] != 'mat' or b[1][0] != 'mat':
                self.err(node, 'np.allclose of %s and %s' % (a[1][0], b[1][0]))
            return ('(npAllcloseMM %s %s)' % (paren(a[0]), paren(b[0])), ('bool', ))
        if name == 'select':
            plain(2)
            a, b = self.expr(args[0], env), self.expr(args[1], env)
            if a[1] != ('list', ('barr', )) or b[1][0] != 'list' or b[1][1] is None or b[1][1][0] != 'mat':
                self.err(node, 'np.select(<list of boolean arrays>, <list of 2-D arrays>) expected, got %s, %s' % (a[1], b[1]))
            return (self.bindm('npSelect %s %s' % (paren(a[0]), paren(b[0]))), b[1][1])
        if name == 'linspace':
            plain(2)
            a, b = self.expr(args[0], env), self.expr(args[1], env)
            return ('(npLinspace %s %s)' % (paren(self.rat(node, a)), paren(self.rat(node, b))), ('arr', ))
        self.err(node, 'np.%s is not supported' % name)

    # ---- statements ------------------------------------------------------------------------------------
    @staticmethod
    def is_docstring(st):
        return isinstance(st, ast.Expr) and isinstance(st.value, ast.Constant) and isinstance(st.value.value, str)

    @staticmethod
    def is_super_init(st):
        return (isinstance(st, ast.Expr) and isinstance(st.value, ast.Call) and isinstance(st.value.func, ast.Attribute)
                and st.value.func.attr == '__init__' and isinstance(st.value.func.value, ast.Call)
                and isinstance(st.value.func.value.func, ast.Name) and st.value.func.value.func.id == 'super')

    @staticmethod
    def always_returns(stmts):
        for st in stmts:
            if isinstance(st, ast.Return) or Fn.is_super_init(st):
                return True
            if isinstance(st, ast.If) and st.orelse and Fn.always_returns(st.body) and Fn.always_returns(st.orelse):
                return True
        return False

    def set_ret(self, node, t):
        if t[0] == 'lit':
            t = ('rat', )
        if self.ret_type is None:
            self.ret_type = t
        elif not same_type(self.ret_type, t):
            self.err(node, 'results of different types: %s and %s' % (self.ret_type, t))

    def bind_name(self, st, name, v, env, annotate=False):
        self.lean_name(st, name)
        t = v[1]
        if t[0] in ('prop', 'fun_arr_mat', 'natsub', 'unit'):
            self.err(st, 'assignment of a value of type %s' % t[0])
        code = v[0]
        if t[0] == 'lit':
            code, t = lean_num(t[1]), ('rat', )
        if t[0] == 'list' and t[1] is None:
            # the element type of an empty list is what the first `append` puts in: the annotation is filled in then
            stmt = ['let', name, '[]', None]
            self.root.empty_decl[name] = stmt
            self.stmts.append(stmt)
            env[name] = (name, t)
            self.stats.bump('assignments')
            return
        self.stmts.append(('let', name, code, lean_type(t) if annotate else None))
        env[name] = (name, t)
        self.stats.bump('assignments')

    def block(self, stmts, env, top=False):
        """translates a statement list into self.stmts; the list must end every path in a return when `top`"""
        i = 0
        while i < len(stmts):
            st, rest = stmts[i], stmts[i + 1:]
            i += 1
            if self.is_docstring(st):
                if not (top and i == 1):
                    self.err(st, 'string statement')
                continue
            if isinstance(st, ast.FunctionDef):
                if self.in_loop or self.cls is not None:
                    self.err(st, 'nested function outside a module function')
                if st.name in self.nested or st.name in env:
                    self.err(st, 'name defined twice')
                self.nested[st.name] = st
                continue
            if isinstance(st, ast.Return):
                if rest:
                    self.err(rest[0], 'unreachable statement after return')
                if st.value is None:
                    self.err(st, 'bare return')
                if self.in_loop:
                    self.err(st, 'return inside a loop')
                if self.cls is not None and self.fname.endswith('__init__'):
                    self.err(st, 'return in __init__')
                v = self.return_value(st, env)
                self.set_ret(st, v[1])
                self.stmts.append(('ret', self.rat(st, v) if v[1][0] == 'lit' else v[0]))
                self.stats.bump('returns')
                return
            if self.is_super_init(st):
                if rest:
                    self.err(rest[0], 'statement after super().__init__(…): the translated constructors end with this call')
                if self.cls is None or self.cls.base is None or not self.fname.endswith('__init__') or self.in_loop:
                    self.err(st, 'super().__init__ outside the constructor of a subclass')
                if st.value.func.value.args or st.value.func.value.keywords:
                    self.err(st, 'super() with arguments')
                d = self.gen.defs.get('%s.__init__' % self.cls.base)
                if d is None:
                    self.err(st, 'the constructor of the base class is not translated')
                v = self.apply_def(st, d, st.value.args, st.value.keywords, env)
                self.set_ret(st, v[1])
                self.stmts.append(('ret', v[0]))
                self.stats.bump('super_init_calls')
                return
            if isinstance(st, ast.Assert):
                self.assert_stmt(st, env)
                continue
            if isinstance(st, ast.Assign):
                self.assign(st, env)
                continue
            if isinstance(st, ast.Expr):
                self.expr_stmt(st, env)
                continue
            if isinstance(st, ast.For):
                self.for_loop(st, env)
                continue
            if isinstance(st, ast.If):
                if self.always_returns(st.body):
                    if st.orelse and self.always_returns(st.orelse) and rest:
                        self.err(rest[0], 'unreachable statement after an if whose branches all return')
                    if self.in_loop:
                        self.err(st, 'return inside a loop')
                    c = self.cond(st.test, env)
                    self.stats.bump('branches')
                    save = self.stmts
                    self.stmts = []
                    self.block(list(st.body), dict(env), top=top)
                    then_s = self.stmts
                    self.stmts = []
                    self.block(list(st.orelse) + list(rest), dict(env), top=top)
                    else_s = self.stmts
                    self.stmts = save
                    self.stmts.append(('ifelse', c, then_s, else_s))
                    return
                if st.orelse:
                    self.err(st, 'an if/else that does not return is not supported')
                c = self.cond(st.test, env)
                self.stats.bump('branches')
                for n in ast.walk(ast.Module(body=st.body, type_ignores=[])):
                    if isinstance(n, (ast.Assign, ast.AugAssign, ast.For, ast.While, ast.Return, ast.FunctionDef)) or \
                            (isinstance(n, ast.Attribute) and n.attr in ('append', 'extend')):
                        self.err(st, 'a one-armed if may only contain assertions and calls')
                save = self.stmts
                self.stmts = []
                self.block(list(st.body), dict(env))
                body = self.stmts
                self.stmts = save
                self.stmts.append(('ifunit', c, body))
                self.monadic = True
                continue
            self.err(st, 'unsupported statement')
        if top:
            if self.cls is not None and self.cls.base is None and self.fname.endswith('__init__'):
                if self.pending_fields is not None:
                    self.make_self(stmts[-1] if stmts else None, env)
                self.set_ret(None, ('obj', ))
                self.stmts.append(('ret', env['self'][0]))
                return
            raise TranslationError('%s: a path falls off the end of the function (Python would return None)' % self.fname)

    def return_value(self, st, env):
        """the returned expression; a nested function in it becomes the closure value"""
        def one(e):
            if isinstance(e, ast.Name) and e.id in self.nested:
                return self.closure(st, e.id, env)
            return self.expr(e, env)
        if isinstance(st.value, ast.Tuple):
            if len(st.value.elts) != 2:
                self.err(st, 'only pairs are supported')
            a, b = one(st.value.elts[0]), one(st.value.elts[1])
            a = (self.rat(st, a), ('rat', )) if a[1][0] == 'lit' else a
            b = (self.rat(st, b), ('rat', )) if b[1][0] == 'lit' else b
            return ('(%s, %s)' % (a[0], b[0]), ('pair', a[1], b[1]))
        return one(st.value)

    def assert_stmt(self, st, env):
        if st.msg is not None:
            self.err(st, 'assert with a message')
        text = ast.unparse(st.test)
        self.root.nasserts = getattr(self.root, 'nasserts', 0) + 1
        tag = ASSERT_TAGS.get(text)
        if tag is None:
            tag = '%s:%d' % (self.root.fname.replace('.__init__', ''), self.root.nasserts)
            self.stats.bump('asserts_without_known_label')
        c = self.cond(st.test, env)
        self.stmts.append(('assert', c, 'assert:' + tag))
        self.monadic = True
        self.stats.bump('asserts')

    def assign(self, st, env):
        if len(st.targets) != 1:
            self.err(st, 'chained assignment')
        tg = st.targets[0]
        if isinstance(tg, ast.Name):
            v = self.expr(st.value, env)
            self.bind_name(st, tg.id, v, env)
            return
        if isinstance(tg, ast.Attribute) and isinstance(tg.value, ast.Name) and tg.value.id == 'self':
            if self.pending_fields is None:
                self.err(st, 'a field may only be assigned at the beginning of the constructor of the base class')
            if tg.attr in [f for f, _, _ in self.pending_fields]:
                self.err(st, 'field assigned twice')
            self.lean_name(st, tg.attr)
            v = self.expr(st.value, env)
            t = v[1]
            code = v[0]
            if t[0] == 'lit':
                code, t = lean_num(t[1]), ('rat', )
            if t[0] in ('prop', 'fun_arr_mat', 'natsub', 'unit') or (t[0] == 'list' and t[1] is None):
                self.err(st, 'field of type %s' % (t, ))
            self.pending_fields.append((tg.attr, t, code))
            self.stats.bump('fields')
            return
        if isinstance(tg, ast.Tuple) and all(isinstance(e, ast.Name) for e in tg.elts) and len(tg.elts) == 2:
            n0, n1 = tg.elts[0].id, tg.elts[1].id
            if n0 == n1:
                self.err(st, 'same name twice')
            if isinstance(st.value, ast.Tuple):
                if len(st.value.elts) != 2:
                    self.err(st, 'pair expected')
                a, b = self.expr(st.value.elts[0], env), self.expr(st.value.elts[1], env)
                self.bind_name(st, n0, a, env)
                self.bind_name(st, n1, b, env)
                return
            v = self.expr(st.value, env)
            if v[1][0] != 'pair':
                self.err(st, 'a pair is unpacked from %s' % v[1][0])
            self.bind_name(st, n0, ('%s.1' % v[0], v[1][1]), env)
            self.bind_name(st, n1, ('%s.2' % v[0], v[1][2]), env)
            return
        self.err(st, 'unsupported assignment target')

    def make_self(self, node, env):
        """all leading `self.f = e` are done: the object exists"""
        ci = self.cls
        fields = self.pending_fields
        self.pending_fields = None
        if ci.fields and [(f, t) for f, t, _ in fields] != ci.fields:
            raise TranslationError('%s: the fields %s differ from those of the first pass' % (self.fname, [f for f, _, _ in fields]))
        ci.fields = [(f, t) for f, t, _ in fields]
        self.stmts.append(('let', 'self', '{ %s }' % ', '.join('%s := %s' % (f, c) for f, _, c in fields), ci.name))
        env['self'] = ('self', ('obj', ))

    def expr_stmt(self, st, env):
        v = st.value
        if isinstance(v, ast.Call) and isinstance(v.func, ast.Attribute) and v.func.attr == 'append' and isinstance(v.func.value, ast.Name):
            name = v.func.value.id
            if name not in env or env[name][1][0] != 'list' or len(v.args) != 1 or v.keywords:
                self.err(st, '<list variable>.append(<value>) expected')
            e = self.expr(v.args[0], env)
            et = env[name][1][1]
            if e[1][0] == 'lit':
                e = (lean_num(e[1][1]), ('rat', ))
            if et is None:
                stmt = self.root.empty_decl.get(name)
                if stmt is None:
                    self.err(st, 'append to a list of unknown element type')
                et = e[1]
                if stmt[3] is None:
                    stmt[3] = lean_type(('list', et))
            if not same_type(et, e[1]):
                self.err(st, 'a %s is appended to a list of %s' % (e[1], et))
            if et[0] == 'mat' and e[1][0] == 'mat':
                et = ('mat', et[1] if et[1] == e[1][1] else None, et[2] if et[2] == e[1][2] else None)
            self.stmts.append(('let', name, '%s ++ [%s]' % (env[name][0], e[0]), None))
            env[name] = (name, ('list', et))
            self.stats.bump('appends')
            return
        self.err(st, 'unsupported expression statement (only `<list>.append(…)`)')

    # ---- loops -----------------------------------------------------------------------------------------
    def for_loop(self, st, env):
        if st.orelse:
            self.err(st, 'for/else')
        if not isinstance(st.target, ast.Name):
            self.err(st, 'only `for <name> in …` is supported')
        for n in ast.walk(ast.Module(body=st.body, type_ignores=[])):
            if isinstance(n, (ast.Break, ast.Continue, ast.Return, ast.While, ast.FunctionDef, ast.Lambda)):
                self.err(n, 'break / continue / return / while / def inside a for loop')
        # the iterable
        it = st.iter
        if isinstance(it, ast.Call) and isinstance(it.func, ast.Name) and it.func.id == 'range' and 'range' not in env:
            if len(it.args) != 1 or it.keywords:
                self.err(st, 'only range(<n>) is supported')
            n = self.expr(it.args[0], env)
            if n[1][0] not in ('nat', 'natsub', 'lit'):
                self.err(st, 'range of %s' % n[1][0])
            iter_code, et = '(pyRange %s)' % paren(n[0] if n[1][0] != 'lit' else self.nat(st, n)), ('nat', )
        else:
            v = self.expr(it, env)
            if v[1][0] != 'list' or v[1][1] is None:
                self.err(st, 'iteration over %s' % (v[1], ))
            iter_code, et = v[0], v[1][1]
        var = self.lean_name(st, st.target.id)
        # variables of the enclosing scope that the body re-assigns: the state of the fold
        carried = []
        for n in sorted(ast.walk(ast.Module(body=st.body, type_ignores=[])), key=lambda n: (getattr(n, 'lineno', 0), getattr(n, 'col_offset', 0))):
            names = []
            if isinstance(n, ast.Assign):
                for t in n.targets:
                    names += [e.id for e in ast.walk(t) if isinstance(e, ast.Name) and isinstance(e.ctx, ast.Store)]
                    if any(isinstance(e, (ast.Attribute, ast.Subscript)) for e in ast.walk(t)):
                        self.err(n, 'attribute / subscript store inside a loop')
            elif isinstance(n, (ast.AugAssign, ast.AnnAssign)):
                self.err(n, 'augmented assignment')
            elif isinstance(n, ast.Call) and isinstance(n.func, ast.Attribute) and n.func.attr == 'append' and isinstance(n.func.value, ast.Name):
                names = [n.func.value.id]
            for x in names:
                if x in env and x not in carried and x != var:
                    carried.append(x)
        if var in env:
            self.err(st, 'the loop variable shadows a variable of the enclosing scope')
        self.nloops[0] += 1
        lname = '%s.loop%d' % (self.root.lean_name_of_def, self.nloops[0])
        sub = Fn(self.gen, self.fname, self.cls, outer=self)
        used = []
        benv = TrackEnv(env, used)
        benv[var] = (var, et)
        st_t = [env[c][1] for c in carried]
        for k, c in enumerate(carried):
            sub.stmts.append(('let', c, tuple_acc('st', k, len(carried)), None))
            benv[c] = (c, env[c][1])
        sub.block(list(st.body), benv)
        for c, t0 in zip(carried, st_t):
            t1 = benv[c][1]
            if not same_type(t0, t1):
                self.err(st, 'the loop changes the type of %s from %s to %s' % (c, t0, t1))
        tup = '()' if not carried else ('(%s)' % ', '.join(carried) if len(carried) > 1 else carried[0])
        sub.stmts.append(('ret', tup))
        free = [u for u in used if u not in carried]
        needsS = sub.needsS
        st_lean = 'Unit' if not carried else ' × '.join(paren(lean_type(benv[c][1])) for c in carried)
        params = ([('S', 'Fns')] if needsS else []) + [(f, lean_type(env[f][1])) for f in free] + \
            [('st', st_lean), (var, lean_type(et))]
        doc = '/-- body of the loop `for %s in %s` of `%s` (line %d): one iteration on the state `%s` -/' % (
            var, self.gen.seg(it)[:80], self.fname, st.lineno, tup)
        self.aux.append([doc, 'def %s %s : Except String %s := do' % (lname, ' '.join('(%s : %s)' % p for p in params), paren(st_lean))] +
                        render(sub.stmts, 2, True))
        self.needsS = self.needsS or needsS
        self.monadic = True
        fcode = ' '.join([lname] + (['S'] if needsS else []) + free)
        init = tup
        t = self.tmp() if carried else '_'
        self.stmts.append(('bind', t, '%s.foldlM (%s) %s' % (iter_code, fcode, init)))
        for k, c in enumerate(carried):
            self.stmts.append(('let', c, tuple_acc(t, k, len(carried)), None))
            env[c] = (c, benv[c][1])
        self.stats.bump('for_loops')

    # ---- closures --------------------------------------------------------------------------------------
    def closure(self, st, name, env):
        """the nested function `name` as a value at a `return`: its captured variables have their final values"""
        fn = self.nested[name]
        key = '%s.%s' % (self.fname, name)
        alt = self.gen.callable_alt(key)
        if alt is None:
            self.err(st, 'the nested function %s is not declared as an alternative of a callable type' % key)
        a = fn.args
        if a.vararg or a.kwarg or a.kwonlyargs or a.posonlyargs or a.defaults or fn.decorator_list:
            self.err(fn, 'unsupported parameter kinds of a nested function')
        pnames = [x.arg for x in a.args]
        if key not in SIGS or len(SIGS[key]) != len(pnames):
            self.err(fn, 'no declared signature for the nested function')
        ptypes = [ty_of_sig(t) for t in SIGS[key]]
        # free variables in order of first occurrence
        bound = set(pnames)
        for n in ast.walk(fn):
            if isinstance(n, ast.Name) and isinstance(n.ctx, ast.Store):
                bound.add(n.id)
            if isinstance(n, (ast.FunctionDef, ast.Lambda)) and n is not fn:
                self.err(n, 'nested function inside a nested function')
        cap = []
        for n in sorted((n for n in ast.walk(fn) if isinstance(n, ast.Name) and isinstance(n.ctx, ast.Load)),
                        key=lambda n: (n.lineno, n.col_offset)):
            if n.id not in bound and n.id in env and n.id not in cap:
                cap.append(n.id)
        lname = key.replace('.', '_')
        sub = Fn(self.gen, key)
        sub.lean_name_of_def = lname
        cenv = {}
        cparams = []
        for c in cap:
            v = env[c]
            t = v[1]
            if t[0] == 'lit':
                t = ('rat', )
            if t[0] in ('prop', 'fun_arr_mat', 'natsub', 'unit') or (t[0] == 'list' and t[1] is None):
                self.err(fn, 'captured variable %s of type %s' % (c, t[0]))
            cenv[c] = (c, t)
            cparams.append((c, t))
        for p, t in zip(pnames, ptypes):
            sub.lean_name(fn, p)
            cenv[p] = (p, t)
        sub.block(list(fn.body), cenv, top=True)
        doc = '/-- the nested function `%s` of `%s` (line %d); first the captured variables %s -/' % (
            name, self.fname, fn.lineno, ', '.join('`%s`' % c for c in cap))
        params = cparams + list(zip(pnames, ptypes))
        self.aux += sub.aux
        self.aux.append([doc] + render_def(lname, sub.needsS, None, params, sub.ret_type, sub.monadic, sub.stmts))
        d = DefInfo(lname, params, sub.ret_type, sub.monadic, sub.needsS)
        self.gen.defs[key] = d
        self.gen.closure_caps[key] = cparams
        self.gen.note_callable(alt, key)
        self.stats.bump('closures')
        code = ' '.join(['%s.of_%s' % (alt, lname)] + [paren(self.rat(st, env[c]) if env[c][1][0] == 'lit' else env[c][0]) for c in cap])
        return ('(%s)' % code, ('callable', alt))


# ---------------------------------------------------------------------------------------------------------
def render(stmts, ind, monadic):
    pad = ' ' * ind
    out = []
    for s in stmts:
        k = s[0]
        if k == 'let':
            out.append(pad + ('let %s : %s := %s' % (s[1], s[3], s[2]) if s[3] else 'let %s := %s' % (s[1], s[2])))
        elif k == 'bind':
            out.append(pad + 'let %s ← %s' % (s[1], s[2]))
        elif k == 'assert':
            out.append(pad + 'assertThat %s "%s"' % (s[1], s[2]))
        elif k == 'ifunit':
            out.append(pad + 'if %s then do' % s[1])
            out += render(s[2], ind + 2, True)
        elif k == 'ifelse':
            if monadic:
                out.append(pad + 'if %s then do' % s[1])
                out += render(s[2], ind + 2, True)
                out.append(pad + 'else do')
                out += render(s[3], ind + 2, True)
            else:
                out.append(pad + 'if %s then' % s[1])
                out += render(s[2], ind + 2, False)
                out.append(pad + 'else')
                out += render(s[3], ind + 2, False)
        elif k == 'ret':
            out.append(pad + ('return %s' % s[1] if monadic else s[1]))
        else:
            raise TranslationError('internal: statement kind %s' % k)
    return out


def render_def(lname, needsS, self_type, params, ret, monadic, stmts):
    ps = ([('S', 'Fns')] if needsS else []) + ([('self', self_type)] if self_type else []) + [(p, lean_type(t)) for p, t in params]
    head = 'def %s%s : %s :=%s' % (lname, ''.join(' (%s : %s)' % p for p in ps),
                                   'Except String %s' % paren(lean_type(ret)) if monadic else lean_type(ret), ' do' if monadic else '')
    return [head] + render(stmts, 2, monadic)


# ---------------------------------------------------------------------------------------------------------
class ClassInfo:
    def __init__(self, name, node, base):
        self.name, self.node, self.base = name, node, base
        self.fields = []


class Gen:
    def __init__(self, repo):
        import warnings
        path = os.path.join(repo, SRC_FILE)
        self.text = open(path).read()
        with warnings.catch_warnings():
            warnings.simplefilter('ignore')
            self.tree = ast.parse(self.text)
        self.consts, self.stats = Consts(), Stats()
        self.funcs, self.classes = {}, {}
        self.defs = {}            # python key -> DefInfo
        self.call_defs = {}       # callable type -> DefInfo of `<Type>.call`
        self.closure_caps = {}    # key -> captured (name, type)
        self.callable_done = {t: [] for t in CALLABLES}
        self.pieces = []          # emitted text blocks in order
        self.main_block = False
        np_ok = False
        for n in self.tree.body:
            if isinstance(n, ast.Import):
                for a in n.names:
                    if (a.name, a.asname) == ('numpy', 'np'):
                        np_ok = True
                    else:
                        raise TranslationError('unsupported import %s' % ast.unparse(n))
            elif isinstance(n, ast.ImportFrom):
                for a in n.names:
                    if n.level != 1 or (n.module, a.name) not in EXTERNAL_IMPORTS or a.asname:
                        raise TranslationError('unsupported import %s' % ast.unparse(n))
            elif isinstance(n, ast.FunctionDef):
                if n.name in self.funcs or n.name in self.classes:
                    raise TranslationError('%s defined twice' % n.name)
                self.funcs[n.name] = n
            elif isinstance(n, ast.ClassDef):
                if n.name in self.funcs or n.name in self.classes:
                    raise TranslationError('%s defined twice' % n.name)
                if n.decorator_list or n.keywords:
                    raise TranslationError('class %s: decorators / keywords are not supported' % n.name)
                if not n.bases:
                    if n.name != BASE_CLASS:
                        raise TranslationError('unknown base class %s' % n.name)
                    base = None
                elif len(n.bases) == 1 and isinstance(n.bases[0], ast.Name) and n.bases[0].id in self.classes:
                    base = n.bases[0].id
                else:
                    raise TranslationError('class %s: base %s is not a translated class defined before it' %
                                           (n.name, [ast.unparse(b) for b in n.bases]))
                self.classes[n.name] = ClassInfo(n.name, n, base)
            elif isinstance(n, ast.Expr) and isinstance(n.value, ast.Constant) and isinstance(n.value.value, str):
                pass
            elif isinstance(n, ast.If) and ast.unparse(n.test) in ("__name__ == '__main__'", '__name__ == "__main__"') and not n.orelse:
                self.main_block = True     # script entry point: not part of the module's behaviour when imported
            else:
                raise TranslationError('unsupported module-level statement line %d: %s' % (n.lineno, self.seg(n)[:100]))
        if not np_ok:
            raise TranslationError('`import numpy as np` not found')
        if BASE_CLASS not in self.classes:
            raise TranslationError('class %s not found' % BASE_CLASS)
        # the names imported for the untranslated methods may not be used anywhere else
        ext_names = {a for _, a in EXTERNAL_IMPORTS}
        for fn in self.translated_functions():
            for n in ast.walk(fn):
                if isinstance(n, ast.Name) and n.id in ext_names:
                    raise TranslationError('%s line %d: use of the external name %s' % (fn.name, n.lineno, n.id))
                if isinstance(n, ast.Call) and isinstance(n.func, ast.Name) and n.func.id in ('setattr', 'delattr', 'exec', 'eval',
                                                                                                  'globals', 'locals', 'getattr'):
                    raise TranslationError('%s line %d: use of %s' % (fn.name, n.lineno, n.func.id))
                if isinstance(n, (ast.Global, ast.Nonlocal)):
                    raise TranslationError('%s line %d: global / nonlocal' % (fn.name, n.lineno))

    def translated_functions(self):
        out = list(self.funcs.values())
        for ci in self.classes.values():
            for m in ci.node.body:
                if isinstance(m, ast.FunctionDef) and m.name not in EXTERNAL_METHODS:
                    out.append(m)
        return out

    def seg(self, node):
        if node is None:
            return ''
        s = ast.get_source_segment(self.text, node)
        return ' '.join((s or ast.unparse(node)).split())

    def callable_alt(self, key):
        for t, alts in CALLABLES.items():
            if key in alts:
                return t
        return None

    def method_def(self, ci, name):
        """DefInfo of a translated method visible in class ci (the class itself, then its bases)"""
        while ci is not None:
            d = self.defs.get('%s.%s' % (ci.name, name))
            if d is not None:
                return d
            ci = self.classes.get(ci.base) if ci.base else None
        return None

    def note_callable(self, alt, key):
        """an alternative of the callable type `alt` is defined; after the last one `<alt>.call` is emitted"""
        if key in self.callable_done[alt]:
            return
        self.callable_done[alt].append(key)
        if len(self.callable_done[alt]) == len(CALLABLES[alt]):
            self.pending_call = getattr(self, 'pending_call', []) + [alt]

    # ---- signatures ------------------------------------------------------------------------------------
    def params_of(self, fn, key, skip_self):
        a = fn.args
        if a.vararg or a.kwarg or a.kwonlyargs or a.posonlyargs:
            raise TranslationError('%s: unsupported parameter kinds' % key)
        if fn.decorator_list:
            raise TranslationError('%s: decorators are not supported' % key)
        if fn.returns is not None or any(x.annotation is not None for x in a.args):
            raise TranslationError('%s: annotations are not supported' % key)
        args = list(a.args)
        defaults = [None] * (len(args) - len(a.defaults)) + list(a.defaults)
        if skip_self:
            if not args or args[0].arg != 'self':
                raise TranslationError('%s: first parameter is not self' % key)
            args, defaults = args[1:], defaults[1:]
        names = [x.arg for x in args]
        if key in SIGS:
            tys = SIGS[key]
        elif skip_self and key.endswith('.__init__') and not names:
            tys = []    # a further curve class without constructor arguments
        else:
            raise TranslationError('%s: no declared signature (unknown function / method: not translated, not skipped)' % key)
        if len(tys) != len(names):
            raise TranslationError('%s: parameters %s (expected %d of types %s)' % (key, names, len(tys), tys))
        return [(n, ty_of_sig(t)) for n, t in zip(names, tys)], {n: d for n, d in zip(names, defaults) if d is not None}

    # ---- one function / method -------------------------------------------------------------------------
    def translate(self, fn, key, lname, cls=None, is_init=False, doc=None):
        """returns (DefInfo, lines)"""
        if True:
            tr = Fn(self, key, cls)
            tr.lean_name_of_def = lname
            params, defaults = self.params_of(fn, key, cls is not None)
            env = {}
            for p, t in params:
                tr.lean_name(fn, p)
                env[p] = (p, t)
            for p, d in defaults.items():
                if Fn(self, key).const_value(d) is None and not (isinstance(d, ast.Constant) and isinstance(d.value, bool)):
                    raise TranslationError('%s: default of %s is not a literal' % (key, p))
            self_type = None
            if cls is not None:
                if is_init and cls.base is None:
                    env['self'] = ('self', ('obj', ))
                    tr.pending_fields = []
                    # the object exists after the leading field assignments
                    body = [s for s in fn.body if not Fn.is_docstring(s)]
                    k = 0
                    while k < len(body) and isinstance(body[k], ast.Assign) and len(body[k].targets) == 1 and \
                            isinstance(body[k].targets[0], ast.Attribute) and isinstance(body[k].targets[0].value, ast.Name) and \
                            body[k].targets[0].value.id == 'self':
                        k += 1
                    tr.block(body[:k], env)
                    tr.make_self(fn, env)
                    tr.block(body[k:], env, top=True)
                elif is_init:
                    tr.block(list(fn.body), env, top=True)
                else:
                    env['self'] = ('self', ('obj', ))
                    self_type = BASE_CLASS
                    tr.block(list(fn.body), env, top=True)
            else:
                tr.block(list(fn.body), env, top=True)
            for name, stmt in tr.empty_decl.items():
                if stmt[3] is None:
                    raise TranslationError('%s: the element type of the empty list %s cannot be determined (nothing is appended)' % (key, name))
        d = DefInfo(lname, params, tr.ret_type, tr.monadic, tr.needsS)
        d.defaults = defaults
        lines = []
        for a in tr.aux:
            lines += a + ['']
        if doc:
            ps = ', '.join(p + ('=' + ast.unparse(defaults[p]) if p in defaults else '') for p, _ in params)
            lines.append('/-- ' + doc % dict(ps=ps) + ' -/')
        lines += render_def(lname, tr.needsS, self_type, params, tr.ret_type, tr.monadic, tr.stmts)
        return d, lines

    def emit_call_defs(self):
        for alt in getattr(self, 'pending_call', []):
            ds = [(k, self.defs[k]) for k in CALLABLES[alt]]
            monadic = any(d.monadic for _, d in ds)
            needsS = any(d.needsS for _, d in ds)
            ret = ds[0][1].ret
            pname, ptype = None, None
            for k, d in ds:
                caps = self.closure_caps.get(k, [])
                own = d.params[len(caps):]
                if len(own) != 1:
                    raise TranslationError('%s: an alternative of %s must take exactly one argument' % (k, alt))
                if pname is None:
                    pname, ptype = own[0]
                elif own[0][1] != ptype:
                    raise TranslationError('%s: the alternatives of %s take different argument types' % (k, alt))
                if not same_type(d.ret, ret):
                    raise TranslationError('%s: the alternatives of %s return different types (%s, %s)' % (k, alt, d.ret, ret))
                if ret[0] == 'mat':
                    ret = ('mat', ret[1] if ret[1] == d.ret[1] else None, ret[2] if ret[2] == d.ret[2] else None)
            lines = ['/-- calling a value of the callable type `%s`: dispatch to the translated body -/' % alt,
                     'def %s.call%s (g : %s) (%s : %s) : %s :=' % (alt, ' (S : Fns)' if needsS else '', alt, pname, lean_type(ptype),
                                                                  'Except String %s' % paren(lean_type(ret)) if monadic else lean_type(ret)),
                     '  match g with']
            for k, d in ds:
                caps = [c for c, _ in self.closure_caps.get(k, [])]
                body = ' '.join([d.lean] + (['S'] if d.needsS else []) + caps + [pname])
                if monadic and not d.monadic:
                    body = 'pure (%s)' % body
                lines.append('  | .of_%s%s => %s' % (d.lean, ''.join(' ' + c for c in caps), body))
            self.call_defs[alt] = DefInfo('%s.call' % alt, [(pname, ptype)], ret, monadic, needsS)
            self.pieces.append(lines)
            self.stats.bump('callable_types')
        self.pending_call = []

    # ---- the whole module ------------------------------------------------------------------------------
    def run(self):
        for name, fn in self.funcs.items():
            if name in RESERVED or name.startswith('c_') or name.startswith('np') or not name.isascii():
                raise TranslationError('the function name `%s` cannot be used as a Lean name' % name)
            d, lines = self.translate(fn, name, name, doc='`%s(%%(ps)s)` (line %d)' % (name, fn.lineno))
            self.defs[name] = d
            self.pieces.append(lines)
            self.stats.bump('module_functions')
            alt = self.callable_alt(name)
            if alt is not None:
                self.note_callable(alt, name)
            self.emit_call_defs()
        for t in CALLABLES:
            if t not in self.call_defs:
                raise TranslationError('the callable type %s is incomplete: alternatives %s not all found in the source' % (t, CALLABLES[t]))
        for cname, ci in self.classes.items():
            self.gen_class(ci)
            self.stats.bump('classes')

    def gen_class(self, ci):
        methods = [n for n in ci.node.body if isinstance(n, ast.FunctionDef)]
        other = [n for n in ci.node.body if not isinstance(n, ast.FunctionDef) and not Fn.is_docstring(n)]
        if other:
            raise TranslationError('class %s: unsupported class-level statement `%s`' % (ci.name, self.seg(other[0])[:80]))
        names = [m.name for m in methods]
        if len(set(names)) != len(names):
            raise TranslationError('class %s: a method is defined twice' % ci.name)
        if ci.name in RESERVED or not ci.name.isascii():
            raise TranslationError('the class name `%s` cannot be used as a Lean name' % ci.name)
        init = [m for m in methods if m.name == '__init__']
        if not init:
            raise TranslationError('class %s: no __init__' % ci.name)
        init = init[0]
        rest = [m for m in methods if m.name != '__init__']
        if ci.base is None:
            # first pass over the leading field assignments: the structure
            params, _ = self.params_of(init, '%s.__init__' % ci.name, True)
            tr = Fn(self, '%s.__init__' % ci.name, ci)
            stats_save, consts_save = dict(self.stats.n), dict(self.consts.defs)
            tr.pending_fields = []
            env = {p: (p, t) for p, t in params}
            env['self'] = ('self', ('obj', ))
            for st in init.body:
                if Fn.is_docstring(st):
                    continue
                if isinstance(st, ast.Assign) and len(st.targets) == 1 and isinstance(st.targets[0], ast.Attribute) and \
                        isinstance(st.targets[0].value, ast.Name) and st.targets[0].value.id == 'self':
                    tr.assign(st, env)
                else:
                    break
            ci.fields = [(f, t) for f, t, _ in tr.pending_fields]
            self.stats.n, self.consts.defs = stats_save, consts_save
            if not ci.fields:
                raise TranslationError('class %s: the constructor assigns no fields' % ci.name)
            # a field may be assigned by the constructor only
            for m in self.translated_functions():
                for n in ast.walk(m):
                    if isinstance(n, ast.Attribute) and isinstance(n.ctx, (ast.Store, ast.Del)) and not (m is init):
                        raise TranslationError('%s line %d: attribute store outside the constructor of %s' % (m.name, n.lineno, ci.name))
            self.pieces.append(['/-- the data of a `%s` object: the fields `__init__` sets (the subclasses add none) -/' % ci.name,
                                'structure %s where' % ci.name] + ['  %s : %s' % (f, lean_type(t)) for f, t in ci.fields] +
                               ['deriving Repr, DecidableEq'])
        for m in rest:
            key = '%s.%s' % (ci.name, m.name)
            if m.name in EXTERNAL_METHODS:
                self.stats.bump('external_methods_not_translated')
                continue
            if m.name == '__repr__':
                body = [s for s in m.body if not Fn.is_docstring(s)]
                if [a.arg for a in m.args.args] != ['self'] or len(body) != 1 or not isinstance(body[0], ast.Return) or \
                        not (isinstance(body[0].value, ast.Constant) and isinstance(body[0].value.value, str)):
                    raise TranslationError('%s: only `return "<literal>"` is supported' % key)
                s = body[0].value.value
                if not s.isascii() or '"' in s or '\\' in s:
                    raise TranslationError('%s: unsupported characters' % key)
                self.pieces.append(['/-- `%s.__repr__()` -/' % ci.name, 'def %s.repr : String := "%s"' % (ci.name, s)])
                self.stats.bump('repr_methods')
                continue
            if ci.base is not None:
                raise TranslationError('%s: a subclass may only define __init__, __repr__ and the external methods %s '
                                       '(overriding is not modelled)' % (key, sorted(EXTERNAL_METHODS)))
            d, lines = self.translate(m, key, '%s.%s' % (ci.name, m.name), ci,
                                      doc='`%s.%s(%%(ps)s)` (line %d)' % (ci.name, m.name, m.lineno))
            self.defs[key] = d
            self.pieces.append(lines)
            self.stats.bump('methods')
        key = '%s.__init__' % ci.name
        what = 'the object after all assertions' if ci.base is None else 'the `%s` that `__init__` hands to `super().__init__`' % BASE_CLASS
        d, lines = self.translate(init, key, '%s.init' % ci.name, ci, is_init=True,
                                  doc='`%s(%%(ps)s)` (line %d): %s' % (ci.name, init.lineno, what))
        if d.ret != ('obj', ):
            raise TranslationError('%s: the constructor does not produce an object' % key)
        self.defs[key] = d
        self.pieces.append(lines)
        self.stats.bump('constructors')


# ---------------------------------------------------------------------------------------------------------
ATOL, RTOL = 1e-08, 1e-05    # defaults of np.allclose


def generate_text(repo):
    """(text over Rat, text over ℝ, stats)"""
    g = Gen(repo)
    g.run()
    out = ['/- GENERATED by translate/paramgen.py from src/parametrization.py -- do not edit. -/',
           '--IMPORTS--',
           'set_option linter.unusedVariables false',
           '--NAMESPACE--',
           '',
           '/-! ### float literals of the source (exact values of the binary64 numbers Python computes with) -/']
    for name in sorted(g.consts.defs):
        fr, what = g.consts.defs[name]
        out += ['/-- %s -/' % what, 'def %s : Rat := %s' % (name, lean_num(fr))]
    out += ['/-- binary64 value of the default `atol=1e-08` of `np.allclose` -/', 'def c_atol : Rat := %s' % lean_num(Fraction(ATOL)),
            '/-- binary64 value of the default `rtol=1e-05` of `np.allclose` -/', 'def c_rtol : Rat := %s' % lean_num(Fraction(RTOL)),
            '',
            '/-- `np.cos`, `np.sin`, `np.atan` and `np.pi` as parameters -/',
            'structure Fns where', '  cos : Rat → Rat', '  sin : Rat → Rat', '  atan : Rat → Rat', '  pi : Rat', '',
            PRELUDE,
            '/-! ### the callable types: what the source stores in `pw_gamma` / `pw_proj` -/']
    for alt, keys in CALLABLES.items():
        out += ['/-- %s -/' % '; '.join('`%s`' % k for k in keys), 'inductive %s where' % alt]
        for k in keys:
            caps = g.closure_caps.get(k, [])
            out.append('  | of_%s%s' % (g.defs[k].lean, ''.join(' (%s : %s)' % (c, lean_type(t)) for c, t in caps)))
        out += ['deriving Repr, DecidableEq', '']
    out += ['/-! ### the functions and classes of `src/parametrization.py`, statement by statement -/']
    for p in g.pieces:
        out += p + ['']
    out += ['--END--', '']
    text = '\n'.join(out)
    st = dict(g.stats.n)
    st['_defs'] = {k: (d.lean, [(p, lean_type(t)) for p, t in d.params], lean_type(d.ret), d.monadic, d.needsS) for k, d in g.defs.items()}
    st['_classes'] = {c: ci.base for c, ci in g.classes.items()}
    st['main_block_ignored'] = int(g.main_block)
    q = text.replace('--IMPORTS--\n', '').replace('--NAMESPACE--', 'namespace Stbem.Gen.ParamGen').replace('--NORM--', NORM_Q) \
        .replace('--END--', 'end Stbem.Gen.ParamGen')
    r = text.replace('--IMPORTS--', 'import Mathlib.Analysis.SpecialFunctions.Sqrt\nimport Mathlib.Data.Real.Basic') \
        .replace('--NAMESPACE--', 'noncomputable section\nopen Classical\nnamespace Stbem.Gen.ParamGenR') \
        .replace('--NORM--', NORM_R).replace('--END--', 'end Stbem.Gen.ParamGenR\nend')
    r = r.replace('deriving Repr, DecidableEq\n', '')
    r = re.sub(r'\bRat\b', 'ℝ', r)
    r = r.replace('src/parametrization.py -- do not edit.', 'src/parametrization.py -- do not edit.\nThe translation of Gen/ParamGen.lean '
                  'emitted over the real numbers (same bodies; `np.linalg.norm` is `Real.sqrt`).')
    return q, r, st


# what the driver (Driver/ParamGenCmd.lean) refers to: the generated file replaces the previous one only if all of it is there
# with these parameter lists, so that a change of src/parametrization.py can break the obligations of C18 but never the shared
# driver build of the other checks (result types may gain / lose `Except`: the driver renders through a type class)
REQUIRED = {
    'circle': (['List Rat'], True),
    'line': (['List Rat', 'List Rat', 'Rat'], False),
    'PiecewiseParametrization.eval': (['List Rat'], True),
    'PiecewiseParametrization.__init__': (['List Rat', 'List Gamma', 'Bool'], True),
    'PiecewisePolygon.__init__': (['List (List Rat)', 'Bool'], True),
    'Circle.__init__': ([], True), 'UnitSquare.__init__': ([], True), 'PiSquare.__init__': ([], True),
    'LShape.__init__': ([], True), 'UnitInterval.__init__': ([], True),
}
REQUIRED_TEXT = ['  | of_line_fun (x_start : Rat) (direct : List (List Rat)) (a : List (List Rat))', '  | of_circle\n',
                 'structure PiecewiseParametrization where\n  pw_start : List Rat\n  pw_gamma : List Gamma\n  closed : Bool\n  gamma_length : Rat\n',
                 'def Gamma.call (S : Fns) (g : Gamma) (x_hat : List Rat) : ']


def check_required(text, stats):
    for k, (ptypes, needsS) in REQUIRED.items():
        d = stats['_defs'].get(k)
        if d is None:
            raise TranslationError('the source no longer defines %s (function / class removed or renamed)' % k)
        if [t for _, t in d[1]] != ptypes or d[4] != needsS:
            raise TranslationError('%s: parameters %s%s (the driver expects %s%s)' % (k, d[1], ' + S' if d[4] else '', ptypes,
                                                                                     ' + S' if needsS else ''))
    for t in REQUIRED_TEXT:
        if t not in text:
            raise TranslationError('the generated text lacks `%s` (the shape of the callable type / class changed)' % t.strip()[:80])


def generate(repo, gen_dir, write, compiles=None):
    """`compiles(text) -> error message or None`: optional test compilation of a CHANGED file before it is written"""
    q, r, stats = generate_text(repo)
    check_required(q, stats)
    changed = 0
    for fname, text in (('ParamGen.lean', q), ('ParamGenR.lean', r)):
        path = os.path.join(gen_dir, fname)
        try:
            same = open(path).read() == text
        except FileNotFoundError:
            same = False
        if not same and compiles is not None and fname == 'ParamGen.lean':
            msg = compiles(text)
            if msg:
                raise TranslationError('the generated Lean text does not compile (the previous Gen/%s is kept):\n%s' % (fname, msg))
        write(path, text)
        changed += int(not same)
    stats['changed'] = changed
    return stats


if __name__ == '__main__':
    sys.path.insert(0, os.path.join(os.path.dirname(os.path.abspath(__file__)), '..'))
    from harness.common import write_if_changed
    gen = os.path.join(os.path.dirname(os.path.abspath(__file__)), '..', 'lean', 'Stbem', 'Gen')
    if len(sys.argv) < 2:
        sys.exit('usage: paramgen.py <repo> [--print | --printR]')
    if '--print' in sys.argv or '--printR' in sys.argv:
        q, r, s = generate_text(sys.argv[1])
        print(r if '--printR' in sys.argv else q)
        print({k: v for k, v in s.items() if not k.startswith('_')}, file=sys.stderr)
    else:
        s = generate(sys.argv[1], gen, write_if_changed)
        print({k: v for k, v in s.items() if not k.startswith('_')})
