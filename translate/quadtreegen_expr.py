"""Expression translator of translate/quadtreegen.py (see there)."""
import ast
import os
import sys

sys.path.insert(0, os.path.dirname(os.path.abspath(__file__)))
from panels import TranslationError  # noqa: E402

SRC_FILE = os.path.join('src', 'initial_mesh.py')

ASSERT_TAGS = {
    ('Element.__init__', 'vertices[0].y == vertices[1].y'): 'element',
    ('Element.__init__', 'vertices[1].x == vertices[2].x'): 'element',
    ('Element.__init__', 'vertices[2].y == vertices[3].y'): 'element',
    ('Element.__init__', 'vertices[3].x == vertices[0].x'): 'element',
    ('Element.__init__', 'vertices[0].x < vertices[2].x'): 'element',
    ('Element.__init__', 'vertices[0].y < vertices[2].y'): 'element',
    ('Element.__init__', 'isclose(self.vertices[1].x - self.vertices[0].x, self.vertices[3].y - self.vertices[0].y)'): 'element',
    ('InitialMesh.vertex_from_coords', 'result is None'): 'vertex-twice',
    ('InitialMesh.bisect_edge', 'not (a, b) in self.__bisect_edge'): 'bisected',
    ('InitialMesh.bisect_edge', '(a.x == b.x == new_vtx.x) ^ (a.y == b.y == new_vtx.y)'): 'midpoint',
    ('InitialMesh.refine', 'self.nbrs[pb, pa].level == element.level - 1'): 'level',
    ('InitialMesh.refine_msh_bdr', 'axis is not None'): 'axis',
    ('InitialMesh.refine_msh_bdr', 'v0[n_axis] <= v1[n_axis]'): 'sorted',
    ('InitialMesh.refine_msh_bdr', 'parent'): 'parent',
}

LEAN_KEYWORDS = {
    'at', 'do', 'then', 'else', 'if', 'fun', 'let', 'have', 'show', 'from', 'end', 'in', 'match', 'with', 'where', 'by', 'open',
    'Type', 'Prop', 'Sort', 'def', 'theorem', 'example', 'namespace', 'section', 'variable', 'universe', 'import', 'return',
    'for', 'unless', 'try', 'catch', 'finally', 'mut', 'this', 'using', 'deriving', 'instance', 'structure', 'class', 'inductive',
    'break', 'continue', 'true', 'false', 'pure', 'some', 'none', 'fuel', 'st_', 'ret_', 'p_', 'q_', 'r_', 'refine_', 'id_',
    'leaves_order', 'coord', 'isclose', 'absQ', 'lexLe', 'lexGt', 'notAxis', 'enumerate', 'dictSet', 'dictHas', 'dictGet', 'setAdd',
    'setRemove', 'setUpdate', 'getIdx', 'getLast', 'assertThat', 'refineCall', 'Vtx', 'Edge', 'Element', 'InitialMesh', 'xor', 'decide',
}

PT = 'Rat × Rat'
DICTS = {'nbrs': ('Edge', 'Element'), 'parent_edge': ('Edge', 'Edge'), 'bisect_edge': ('Edge', 'Vtx')}
SELF_LISTS = {'vertices': 'Vtx', 'elements': 'Element', 'leaf_elements': 'Element'}
MUTATING = {'__init__', 'bisect_edge', 'refine', 'uniform_refine', 'refine_msh_bdr'}
ATOM_END = set('abcdefghijklmnopqrstuvwxyzABCDEFGHIJKLMNOPQRSTUVWXYZ0123456789_.)]}')


def is_atom(code):
    """no parentheses needed as a function argument"""
    if code.startswith('(') and code.endswith(')') or code.startswith('{') or code.startswith('['):
        return True
    return all(ch.isalnum() or ch in '_.' for ch in code)


def par(code):
    return code if is_atom(code) else '(' + code + ')'


def opt(ty):
    return ty.startswith('Option ')


def pair_ty(t1, t2):
    if t1 == 'Vtx' and t2 == 'Vtx':
        return 'Edge'
    if t1 == 'Rat' and t2 == 'Rat':
        return PT
    return '%s × %s' % (t1 if '×' not in t1 else '(' + t1 + ')', t2)


def unpair(ty):
    """component types of a pair type"""
    if ty == 'Edge':
        return ['Vtx', 'Vtx']
    if ty == PT:
        return ['Rat', 'Rat']
    if ty == 'Edge × Edge':
        return ['Edge', 'Edge']
    if ty.startswith('(') and ') × (' in ty and ty.endswith(')'):
        a, b = ty[1:-1].split(') × (')
        return [a, b]
    if ' × ' in ty and '(' not in ty:
        a, b = ty.split(' × ', 1)
        return [a, b]
    raise TranslationError('not a pair type: ' + ty)


class Stats:
    def __init__(self):
        self.n = {}

    def bump(self, k, d=1):
        self.n[k] = self.n.get(k, 0) + d


class Fn:
    """translation of one method: expression translator with hoisted fallible reads, statement walker (quadtreegen_stmt)"""

    def __init__(self, stats, qual, lean, params, src_text, recursive=False):
        self.stats, self.qual, self.lean, self.src_text = stats, qual, lean, src_text
        self.env = {}                 # name -> Lean type, in binding order
        for n, t in params:
            self.env[n] = t
        self.t = self.r = self.loops = 0
        self.defs = []                # finished `_loopN` / `_while` definitions
        self.recursive = recursive
        self.in_elem_init = qual == 'Element.__init__'
        self.extra_inputs = []
        self.children_ids = None      # name of the list literal of constructed elements awaiting `extend`

    def err(self, node, msg):
        raise TranslationError('%s line %s: %s: `%s`' % (self.qual, getattr(node, 'lineno', '?'), msg,
                                                           ast.unparse(node)[:120] if isinstance(node, ast.AST) else node))

    def bind(self, name, ty, node=None):
        if name in LEAN_KEYWORDS or not name.isidentifier() or not name.isascii() or name.startswith('t') and name[1:].isdigit() \
                or name.startswith('r') and name[1:].isdigit():
            self.err(node or name, 'the local name `%s` cannot be used as a Lean name' % name)
        self.env[name] = ty

    def tmp(self, pre, ind, code):
        self.t += 1
        pre.append('%slet t%d ← %s' % (ind, self.t, code))
        return 't%d' % self.t

    # ---- expressions: (code, type); fallible reads are appended to `pre` -------------------------------------------
    def self_attr(self, node):
        """`self.<attr>` of an InitialMesh"""
        a = node.attr
        if a in ('__bisect_edge', '_InitialMesh__bisect_edge'):
            a = 'bisect_edge'
        if a in DICTS:
            return 'self.' + a, 'Dict %s|%s' % DICTS[a]
        if a in SELF_LISTS:
            return 'self.' + a, 'List ' + SELF_LISTS[a]
        self.err(node, 'attribute of InitialMesh outside the object model')

    def ex(self, node, pre, ind):
        if isinstance(node, ast.Name):
            if node.id not in self.env:
                self.err(node, 'unknown name')
            return node.id, self.env[node.id]
        if isinstance(node, ast.Constant):
            if node.value is None:
                return 'none', 'None'
            if isinstance(node.value, int) and not isinstance(node.value, bool):
                return str(node.value), 'Num'
            self.err(node, 'literal outside the fragment')
        if isinstance(node, ast.Tuple):
            if len(node.elts) != 2:
                self.err(node, 'only pairs are supported')
            (a, ta), (b, tb) = self.ex(node.elts[0], pre, ind), self.ex(node.elts[1], pre, ind)
            return '(%s, %s)' % (a, b), pair_ty(ta, tb)
        if isinstance(node, ast.List):
            items = [self.ex(e, pre, ind) for e in node.elts]
            tys = {t for _, t in items}
            if len(tys) != 1:
                self.err(node, 'list literal of mixed types')
            return '[%s]' % ', '.join(c for c, _ in items), 'List ' + tys.pop()
        if isinstance(node, ast.Attribute):
            return self.attribute(node, pre, ind)
        if isinstance(node, ast.Subscript):
            return self.subscript(node, pre, ind)
        if isinstance(node, ast.BinOp):
            return self.binop(node, pre, ind)
        if isinstance(node, ast.Call):
            return self.call(node, pre, ind)
        if isinstance(node, (ast.Compare, ast.BoolOp, ast.UnaryOp)):
            return self.cond(node, pre, ind), 'Prop'
        self.err(node, 'expression outside the fragment')

    def attribute(self, node, pre, ind):
        if isinstance(node.value, ast.Name) and node.value.id == 'self' and self.env.get('self') == 'InitialMesh':
            return self.self_attr(node)
        base, ty = self.ex(node.value, pre, ind)
        a = node.attr
        if ty == 'Vtx' and a in ('x', 'y'):
            return '%s.%s' % (base, a), 'Rat'
        if ty == 'Vtx' and a == 'idx':
            return '%s.idx' % base, 'Nat'
        if ty == 'Vtx' and a in ('xy', 'xy_np'):
            return '%s.xy' % base, PT
        if ty == 'Element' and a == 'level':
            return '%s.level' % base, 'Nat'
        if ty == 'Element' and a == 'edges':
            return 'Element_edges %s' % base, 'List Edge'
        self.err(node, 'attribute outside the object model (type %s)' % ty)

    def vertices_index(self, node):
        """`vertices[k]` / `self.vertices[k]` / `elem.vertices[k]` with a literal k -> field `vk`"""
        v = node.value
        k = node.slice
        if not (isinstance(k, ast.Constant) and k.value in (0, 1, 2, 3)):
            return None
        if self.in_elem_init and (isinstance(v, ast.Name) and v.id == 'vertices' or
                                  isinstance(v, ast.Attribute) and v.attr == 'vertices' and isinstance(v.value, ast.Name) and v.value.id == 'self'):
            return 'v%d' % k.value, 'Vtx'
        if isinstance(v, ast.Attribute) and v.attr == 'vertices' and isinstance(v.value, ast.Name) and self.env.get(v.value.id) == 'Element':
            return '%s.v%d' % (v.value.id, k.value), 'Vtx'
        return None

    def subscript(self, node, pre, ind):
        r = self.vertices_index(node)
        if r:
            return r
        v = node.value
        if isinstance(v, ast.Attribute) and isinstance(v.value, ast.Name) and v.value.id == 'self' and self.env.get('self') == 'InitialMesh':
            base, ty = self.self_attr(v)
            if ty.startswith('Dict '):
                kt, vt = ty[5:].split('|')
                key, kty = self.ex(node.slice, pre, ind)
                if kty != kt:
                    self.err(node, 'key of type %s for a dict keyed by %s' % (kty, kt))
                self.stats.bump('dict_reads')
                return self.tmp(pre, ind, 'dictGet %s %s' % (base, key)), vt
            if isinstance(node.slice, ast.UnaryOp) and isinstance(node.slice.op, ast.USub) and isinstance(node.slice.operand, ast.Constant) \
                    and node.slice.operand.value == 1:
                return self.tmp(pre, ind, 'getLast %s' % base), ty[5:]
            i, ity = self.ex(node.slice, pre, ind)
            if ity != 'Nat':
                self.err(node, 'list index that is not a natural number')
            return self.tmp(pre, ind, 'getIdx %s %s' % (base, i)), ty[5:]
        base, ty = self.ex(v, pre, ind)
        if ty == PT:
            sl = node.slice
            if isinstance(sl, ast.Tuple):      # v[i, 0] of a (2,1) array
                if not (len(sl.elts) == 2 and isinstance(sl.elts[1], ast.Constant) and sl.elts[1].value == 0):
                    self.err(node, 'index of a (2,1) array')
                sl = sl.elts[0]
            i, ity = self.ex(sl, pre, ind)
            if ity not in ('Nat', 'Num'):
                self.err(node, 'coordinate index')
            return 'coord %s %s' % (base, i), 'Rat'
        self.err(node, 'subscript outside the fragment (type %s)' % ty)

    PREC = {ast.Add: 65, ast.Sub: 65, ast.Mult: 70, ast.Div: 70}
    SYM = {ast.Add: '+', ast.Sub: '-', ast.Mult: '*', ast.Div: '/'}

    def arith(self, node, pre, ind):
        """(code, type, precedence)"""
        if isinstance(node, ast.BinOp) and type(node.op) in self.PREC:
            p = self.PREC[type(node.op)]
            a, ta, pa = self.arith(node.left, pre, ind)
            b, tb, pb = self.arith(node.right, pre, ind)
            tys = {ta, tb} - {'Num'}
            if len(tys) > 1 or not tys <= {'Rat', 'Nat'}:
                self.err(node, 'arithmetic on %s and %s' % (ta, tb))
            ty = tys.pop() if tys else 'Num'
            if ty == 'Nat' and isinstance(node.op, (ast.Sub, ast.Div)):
                self.err(node, 'subtraction / division of natural numbers')
            if pa < p:
                a = '(%s)' % a
            if pb <= p:
                b = '(%s)' % b
            return '%s %s %s' % (a, self.SYM[type(node.op)], b), ty, p
        c, t = self.ex(node, pre, ind)
        return c, t, (100 if is_atom(c) else 90)

    def binop(self, node, pre, ind):
        if isinstance(node.op, ast.BitXor):
            a, b = self.cond(node.left, pre, ind), self.cond(node.right, pre, ind)
            return 'xor (decide (%s)) (decide (%s)) = true' % (a, b), 'Prop'
        c, t, _ = self.arith(node, pre, ind)
        return c, t

    def call(self, node, pre, ind):
        f = node.func
        src = ast.unparse(node)
        if isinstance(f, ast.Name):
            if f.id == 'isclose' and len(node.args) == 2 and not node.keywords:
                (a, ta), (b, tb) = self.ex(node.args[0], pre, ind), self.ex(node.args[1], pre, ind)
                if ta != 'Rat' or tb != 'Rat':
                    self.err(node, 'isclose on %s, %s' % (ta, tb))
                return 'isclose %s %s = true' % (par(a), par(b)), 'Prop'
            if f.id == 'len' and len(node.args) == 1:
                a, ta = self.ex(node.args[0], pre, ind)
                if not ta.startswith('List '):
                    self.err(node, 'len of a non-list')
                return '%s.length' % a, 'Nat'
            if f.id == 'abs' and len(node.args) == 1:
                a, ta = self.ex(node.args[0], pre, ind)
                if ta != 'Rat':
                    self.err(node, 'abs of a non-number')
                return 'absQ %s' % par(a), 'Rat'
            if f.id == 'int' and len(node.args) == 1 and isinstance(node.args[0], ast.UnaryOp) and isinstance(node.args[0].op, ast.Not):
                a, ta = self.ex(node.args[0].operand, pre, ind)
                if ta != 'Nat':
                    self.err(node, 'int(not x) of a non-index')
                return 'notAxis %s' % par(a), 'Nat'
            if f.id == 'tuple' and len(node.args) == 1:
                g = node.args[0]
                if isinstance(g, ast.Call) and isinstance(g.func, ast.Attribute) and g.func.attr == 'flatten' and not g.args:
                    a, ta = self.ex(g.func.value, pre, ind)
                    if ta == PT:
                        return a, PT
                self.err(node, 'tuple(..) of something that is not a flattened point')
            if f.id == 'enumerate' and len(node.args) == 1:
                a, ta = self.ex(node.args[0], pre, ind)
                if not ta.startswith('List '):
                    self.err(node, 'enumerate of a non-list')
                et = ta[5:]
                et = et[1:-1] if et.startswith('(') and et.endswith(')') else et
                return 'enumerate %s' % par(a), 'List (Nat × %s)' % (et if '×' not in et else '(' + et + ')')
            if f.id == 'range' and len(node.args) == 1 and isinstance(node.args[0], ast.Constant):
                return 'List.range %d' % node.args[0].value, 'List Nat'
            if f.id == 'list' and src == 'list(self.leaf_elements)':
                if 'leaves_order' not in self.extra_inputs:
                    self.extra_inputs.append('leaves_order')
                return 'leaves_order', 'List Element'
            if f.id == 'Vertex':
                kw = {k.arg: k.value for k in node.keywords}
                if node.args or set(kw) != {'x', 'y', 'idx'}:
                    self.err(node, 'Vertex(..) must be called with the keywords x, y, idx')
                (x, tx), (y, ty), (i, ti) = self.ex(kw['x'], pre, ind), self.ex(kw['y'], pre, ind), self.ex(kw['idx'], pre, ind)
                if tx != 'Rat' or ty != 'Rat' or ti != 'Nat':
                    self.err(node, 'Vertex(x: %s, y: %s, idx: %s)' % (tx, ty, ti))
                self.stats.bump('ctor_calls')
                return '{ x := %s, y := %s, idx := %s }' % (x, y, i), 'VtxLit'
            if f.id == 'Element':
                return self.element_ctor(node, pre, ind, None)
        self.err(node, 'call outside the fragment')

    def element_ctor(self, node, pre, ind, k):
        """`Element(vertices=<4-sequence>, parent=..)`; k = position in a list literal that is extended to `self.elements`"""
        kw = {a.arg: a.value for a in node.keywords}
        if node.args or not set(kw) <= {'vertices', 'parent'} or 'vertices' not in kw:
            self.err(node, 'Element(..) must be called with the keywords vertices[, parent]')
        vs = kw['vertices']
        if not (isinstance(vs, (ast.Tuple, ast.List)) and len(vs.elts) == 4):
            self.err(node, '`vertices` must be a literal 4-sequence')
        cs = []
        for e in vs.elts:
            c, t = self.ex(e, pre, ind)
            if t != 'Vtx':
                self.err(e, 'a vertex is expected')
            cs.append(par(c))
        if 'parent' in kw:
            p, tp = self.ex(kw['parent'], pre, ind)
            if tp != 'Element':
                self.err(node, 'parent must be an element')
            p = '(some %s)' % p
        else:
            p = 'none'
        ident = 'self.elements.length' if k is None else '(self.elements.length + %d)' % k
        self.stats.bump('ctor_calls')
        return self.tmp(pre, ind, 'Element_init %s %s %s' % (' '.join(cs), p, ident)), 'Element'

    CMP = {ast.Eq: '=', ast.Lt: '<', ast.LtE: '≤', ast.Gt: '>', ast.GtE: '≥'}

    def cond(self, node, pre, ind):
        """a Lean proposition (decidable)"""
        if isinstance(node, ast.BoolOp) and isinstance(node.op, ast.And):
            return ' ∧ '.join('(%s)' % self.cond(v, pre, ind) for v in node.values)
        if isinstance(node, ast.UnaryOp) and isinstance(node.op, ast.Not):
            return '¬ (%s)' % self.cond(node.operand, pre, ind)
        if isinstance(node, ast.Compare):
            parts, left = [], node.left
            for op, right in zip(node.ops, node.comparators):
                parts.append(self.cmp1(node, left, op, right, pre, ind))
                left = right
            return parts[0] if len(parts) == 1 else ' ∧ '.join('(%s)' % p for p in parts)
        c, t = self.ex(node, pre, ind)
        if t != 'Prop':
            self.err(node, 'a condition is expected (type %s)' % t)
        return c

    def cmp1(self, node, left, op, right, pre, ind):
        if isinstance(op, (ast.In, ast.NotIn)):
            k, kt = self.ex(left, pre, ind)
            d, dt = self.ex(right, pre, ind)
            if not dt.startswith('Dict ') or dt[5:].split('|')[0] != kt:
                self.err(node, '`in` needs a dict and a key of its key type')
            self.stats.bump('dict_tests')
            c = 'dictHas %s %s = true' % (d, k)
            return c if isinstance(op, ast.In) else '¬ (%s)' % c
        if isinstance(op, (ast.Is, ast.IsNot)):
            a, ta = self.ex(left, pre, ind)
            if not (isinstance(right, ast.Constant) and right.value is None and opt(ta)):
                self.err(node, '`is` is supported for `<optional> is None` only')
            return ('%s = none' % a) if isinstance(op, ast.Is) else ('¬ (%s = none)' % a)
        if type(op) not in self.CMP:
            self.err(node, 'comparison outside the fragment')
        # level == level - 1  ->  level + 1 = level
        if isinstance(op, ast.Eq) and isinstance(right, ast.BinOp) and isinstance(right.op, ast.Sub) and \
                isinstance(right.right, ast.Constant) and isinstance(right.right.value, int):
            a, ta = self.ex(left, pre, ind)
            b, tb = self.ex(right.left, pre, ind)
            if ta == 'Nat' and tb == 'Nat':
                return '%s + %d = %s' % (a, right.right.value, b)
        a, ta, _ = self.arith(left, pre, ind)
        b, tb, _ = self.arith(right, pre, ind)
        if ta == PT and tb == PT:
            if isinstance(op, ast.LtE):
                return 'lexLe %s %s = true' % (par(a), par(b))
            if isinstance(op, ast.Gt):
                return 'lexGt %s %s = true' % (par(a), par(b))
            self.err(node, 'tuple comparison outside the fragment')
        if not ({ta, tb} <= {'Rat', 'Num'} or {ta, tb} <= {'Nat', 'Num'}):
            self.err(node, 'comparison of %s and %s' % (ta, tb))
        return '%s %s %s' % (a, self.CMP[type(op)], b)


