#!/venv/bin/python
"""Translator: sign / index conventions of the solve-and-residual pipeline -> lean/Stbem/Gen/Conventions.lean.

Extracted by `ast` from example.py (assembly of `mat`, `rhs`, `Phi`), src/error_estimator.py (`ErrorEstimator.residual`)
and src/single_layer.py (`bilform_matrix`, `MP_SL_matrix_col`).  Any other shape of these statements is a
TranslationError (= broken obligation), never silently accepted."""
import ast
import os
import sys


class TranslationError(Exception):
    pass


def _src(path):
    import warnings
    s = open(path).read()
    with warnings.catch_warnings():
        warnings.simplefilter('ignore')
        return s, ast.parse(s)


def _sign_of_assign(node, name):
    """`name = -X(...)` -> -1, `name = X(...)` -> +1; `name += X` -> +1; `name -= X` -> -1 ; returns (sign, callee)."""
    if isinstance(node, ast.Assign) and len(node.targets) == 1:
        v, sign = node.value, 1
        if isinstance(v, ast.UnaryOp) and isinstance(v.op, ast.USub):
            v, sign = v.operand, -1
        return sign, v
    if isinstance(node, ast.AugAssign):
        if isinstance(node.op, ast.Add):
            return 1, node.value
        if isinstance(node.op, ast.Sub):
            return -1, node.value
    raise TranslationError('unsupported statement for %s' % name)


def _callee(v):
    # a scalar-extraction wrapper np.squeeze(...) / float(...) around the call does not change the convention
    while isinstance(v, ast.Call) and len(v.args) == 1 and (
            (isinstance(v.func, ast.Attribute) and v.func.attr in ('squeeze', 'asarray')) or
            (isinstance(v.func, ast.Name) and v.func.id == 'float')):
        v = v.args[0]
    if isinstance(v, ast.Call):
        f = v.func
        if isinstance(f, ast.Attribute):
            return f.attr
        if isinstance(f, ast.Name):
            return f.id
    return None


def extract(repo):
    out = {}
    # ---- example.py -------------------------------------------------------------------------------------
    s, tree = _src(os.path.join(repo, 'example.py'))
    stmts = [n for n in ast.walk(tree) if isinstance(n, (ast.Assign, ast.AugAssign, ast.If))]
    mat = [n for n in stmts if isinstance(n, ast.Assign) and isinstance(n.targets[0], ast.Name) and n.targets[0].id == 'mat']
    if len(mat) != 1 or _callee(mat[0].value) != 'bilform_matrix':
        raise TranslationError('example.py: mat = SL.bilform_matrix(...) not found exactly once')
    a = mat[0].value.args
    if not (len(a) >= 2 and all(isinstance(x, ast.Name) for x in a[:2]) and a[0].id == a[1].id == 'elems'):
        raise TranslationError('example.py: bilform_matrix is not called with (elems, elems)')
    rhs_m0 = rhs_g = None
    for n in stmts:
        if isinstance(n, ast.If) and isinstance(n.test, ast.Name) and n.test.id == 'M0' and len(n.body) == 1:
            st = n.body[0]
            tgt = st.targets[0] if isinstance(st, ast.Assign) else getattr(st, 'target', None)
            if isinstance(tgt, ast.Name) and tgt.id == 'rhs':
                sign, v = _sign_of_assign(st, 'rhs')
                if _callee(v) != 'linform_vector':
                    raise TranslationError('example.py: rhs under `if M0` is not M0.linform_vector')
                rhs_m0 = sign
        if isinstance(n, ast.If) and isinstance(n.test, ast.Name) and n.test.id == 'g_linform' and len(n.body) == 1:
            st = n.body[0]
            tgt = st.targets[0] if isinstance(st, ast.Assign) else getattr(st, 'target', None)
            if isinstance(tgt, ast.Name) and tgt.id == 'rhs':
                sign, v = _sign_of_assign(st, 'rhs')
                if _callee(v) != 'g_linform':
                    raise TranslationError('example.py: rhs under `if g_linform` is not g_linform(elems)')
                if not isinstance(st, ast.AugAssign):
                    raise TranslationError('example.py: g_linform must be accumulated into rhs')
                rhs_g = sign
    if rhs_m0 is None or rhs_g is None:
        raise TranslationError('example.py: rhs assembly not recognised')
    phi = [n for n in stmts if isinstance(n, ast.Assign) and isinstance(n.targets[0], ast.Name) and n.targets[0].id == 'Phi']
    if len(phi) != 1 or _callee(phi[0].value) != 'solve' or [x.id for x in phi[0].value.args] != ['mat', 'rhs']:
        raise TranslationError('example.py: Phi = np.linalg.solve(mat, rhs) not found')
    out['rhsM0Sign'], out['rhsGSign'] = rhs_m0, rhs_g
    # ---- error_estimator.residual -------------------------------------------------------------------------
    s, tree = _src(os.path.join(repo, 'src', 'error_estimator.py'))
    outer = [n for n in ast.walk(tree) if isinstance(n, ast.FunctionDef) and n.name == 'residual' and
             any(isinstance(m, ast.FunctionDef) and m.name == 'residual' for m in n.body)]
    if len(outer) != 1:
        raise TranslationError('error_estimator.py: residual closure not found')
    inner = [m for m in outer[0].body if isinstance(m, ast.FunctionDef)][0]
    res_v = res_m0 = res_g = None
    v_assigned = False
    for n in ast.walk(inner):
        if isinstance(n, ast.AugAssign) and isinstance(n.target, ast.Name) and n.target.id == 'VPhi':
            sign, v = _sign_of_assign(n, 'VPhi')
            if not (isinstance(v, ast.BinOp) and isinstance(v.op, ast.Mult) and _callee(v.right) in ('evaluate', 'evaluate_exact')
                    and isinstance(v.left, ast.Subscript) and getattr(v.left.value, 'id', None) == 'Phi'):
                raise TranslationError('residual: VPhi accumulation is not Phi[j] * SL.evaluate*(...)')
            if res_v not in (None, sign):
                raise TranslationError('residual: inconsistent VPhi signs')
            res_v = sign
        if isinstance(n, ast.Assign) and isinstance(n.targets[0], ast.Subscript) and getattr(n.targets[0].value, 'id', None) == 'result':
            if not (isinstance(n.value, ast.Name) and n.value.id == 'VPhi'):
                raise TranslationError('residual: result[i] is not assigned VPhi')
            v_assigned = True
        if isinstance(n, ast.AugAssign) and isinstance(n.target, ast.Subscript) and getattr(n.target.value, 'id', None) == 'result':
            sign, v = _sign_of_assign(n, 'result')
            if _callee(v) == 'M0u0':
                res_m0 = sign
            elif _callee(v) == 'g':
                res_g = sign
            else:
                raise TranslationError('residual: unknown contribution to result[i]')
    if None in (res_v, res_m0, res_g) or not v_assigned:
        raise TranslationError('residual: contributions not recognised')
    out['resVSign'], out['resM0Sign'], out['resGSign'] = res_v, res_m0, res_g
    # ---- single_layer.bilform_matrix: rows = test, columns = trial ------------------------------------------
    s, tree = _src(os.path.join(repo, 'src', 'single_layer.py'))
    rows_test = []
    for n in ast.walk(tree):
        if isinstance(n, ast.Assign) and isinstance(n.targets[0], ast.Subscript) and getattr(n.targets[0].value, 'id', None) == 'mat' \
                and _callee(n.value) == 'bilform':
            idx = n.targets[0].slice
            args = [getattr(x, 'id', None) for x in n.value.args]
            if not (isinstance(idx, ast.Tuple) and [getattr(e, 'id', None) for e in idx.elts] == ['i', 'j'] and
                    args == ['elem_trial', 'elem_test']):
                raise TranslationError('bilform_matrix: mat[i, j] = self.bilform(elem_trial, elem_test) expected')
            rows_test.append(True)
    if len(rows_test) != 2:
        raise TranslationError('bilform_matrix: expected the inline and the serial assignment of mat[i, j]')
    # the loops: i enumerates elems_test, j enumerates elems_trial
    fn = [n for n in ast.walk(tree) if isinstance(n, ast.FunctionDef) and n.name == 'bilform_matrix'][0]
    loops = [(n.target, n.iter) for n in ast.walk(fn) if isinstance(n, ast.For) and isinstance(n.iter, ast.Call) and _callee(n.iter) == 'enumerate']
    for tgt, it in loops:
        if not isinstance(tgt, ast.Tuple):
            continue
        names = [getattr(e, 'id', None) for e in tgt.elts]
        arg = getattr(it.args[0], 'id', None)
        if names == ['i', 'elem_test'] and arg != 'elems_test' or names == ['j', 'elem_trial'] and arg != 'elems_trial':
            raise TranslationError('bilform_matrix: loop variables do not enumerate the expected lists')
        if names[0] == 'j' and names[1] == 'col':
            pass
    col = [n for n in ast.walk(fn) if isinstance(n, ast.Assign) and isinstance(n.targets[0], ast.Subscript) and
           getattr(n.targets[0].value, 'id', None) == 'mat' and isinstance(n.value, ast.Name) and n.value.id == 'col']
    if len(col) != 1 or not (isinstance(col[0].targets[0].slice, ast.Tuple) and isinstance(col[0].targets[0].slice.elts[0], ast.Slice)
                             and getattr(col[0].targets[0].slice.elts[1], 'id', None) == 'j'):
        raise TranslationError('bilform_matrix: pool path does not assign mat[:, j] = col')
    out['matRowIsTest'] = True
    return out


def emit(c):
    def i(v):
        return '(%d)' % v if v < 0 else str(v)
    return '\n'.join([
        '/- GENERATED by translate/conventions.py from example.py, src/error_estimator.py, src/single_layer.py -- do not edit. -/',
        'namespace Stbem.Conv',
        '/-- `rhs = rhsM0Sign * <M0 u0, 1_i> + rhsGSign * <g, 1_i>` (example.py) -/',
        'def rhsM0Sign : Int := %s' % i(c['rhsM0Sign']),
        'def rhsGSign : Int := %s' % i(c['rhsGSign']),
        '/-- `r = resVSign * V Phi + resM0Sign * M0u0 + resGSign * g` (ErrorEstimator.residual) -/',
        'def resVSign : Int := %s' % i(c['resVSign']),
        'def resM0Sign : Int := %s' % i(c['resM0Sign']),
        'def resGSign : Int := %s' % i(c['resGSign']),
        '/-- `mat[i, j] = bilform(trial_j, test_i)`: rows are indexed by test elements on every assembly path -/',
        'def matRowIsTest : Bool := %s' % ('true' if c['matRowIsTest'] else 'false'),
        'end Stbem.Conv', ''])


def generate(repo, gen_dir, write):
    c = extract(repo)
    write(os.path.join(gen_dir, 'Conventions.lean'), emit(c))
    return c


if __name__ == '__main__':
    sys.path.insert(0, os.path.join(os.path.dirname(os.path.abspath(__file__)), '..'))
    from harness.common import write_if_changed
    gen = os.path.join(os.path.dirname(os.path.abspath(__file__)), '..', 'lean', 'Stbem', 'Gen')
    print(generate(sys.argv[1] if len(sys.argv) > 1 else '/repo', gen, write_if_changed))
