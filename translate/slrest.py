#!/venv/bin/python
"""Translator: the REST of `src/single_layer.py`, `ErrorEstimator.residual` of `src/error_estimator.py` and the assembly slice
of `example.py` (ast) -> lean/Stbem/Gen/SLRest.lean  (Mathlib-free, executable, linked into the driver).

`translate/panels.py` regenerates `__integrate`, `bilform`, `evaluate`, `_init_elems`, `MP_SL_matrix_col` and the loop nests of
`bilform_matrix`.  This translator (same machinery: it extends `panels.Tr`) regenerates, statement by statement,
  * `SingleLayerOperator.evaluate_exact`   -> `Stbem.Gen.SLRest.evaluate_exact`   (`Option Rat`; `none` = the function falls off
                                              its end, Python returns `None`)
  * `SingleLayerOperator.potential`        -> `potential`          (`Rat`)
  * `SingleLayerOperator.evaluate_vector`, `potential_vector`, `rhs_vector` -> same names (`List Rat`)
  * `MP_SL_matrix_col` once more, abstract over the element and value types, against a worker's copy of the module globals
                                           -> `MP_SL_matrix_col`   (`Except String (List V)`)
  * `SingleLayerOperator.bilform_matrix`   -> `bilform_matrix`     (ALL of it: the two defaults, the threshold `N * M < 100`,
                                              the cache key text and file name, `np.load` / `np.save` in `try`, serial loop /
                                              worker pool with the code's chunk size, `mat[:, j] = col`)
  * `ErrorEstimator.residual`              -> `residual_point` (body of the loop over the evaluation points) and `residual`
                                              (the closure the method returns: assertion, `gamma(x_hat)`, the loop)
  * the statements of `example.py` (inside `for k in range(100)`) that define `elems`, `N`, `mat`, `rhs`, `Phi`
                                           -> `assembly_slice`

Bound, not translated (externals, as in panels.py): the quadrature classes (`Stbem.Quad`), the generated kernels `sl_tik`,
`steval_1` (translate/formulas.py), `Panels.evaluate`, special functions (`Fns`), `gauss_quadrature_scheme` (a parameter),
`np.linalg.solve` (a parameter), `hashlib.md5(..).hexdigest()` (a parameter), the process pool (`Stbem.Assembly.poolMap`:
chunks, an arbitrary schedule, results in task order), the file system (`Stbem.Assembly.Dir/load/save`).

Object model (TRUSTED, written into the generated header; validated on every run by the correspondence twins of C03/C04/C07):
  * an element = `Stbem.SL.Elem` (intervals, piece index); `elem.gamma_space` = the exact affine piece `pieceOf gs elem.piece`;
    `a.gamma_space is gamma` = equal piece index; a curve piece handed to the residual = its index;
  * `x` of shape (2,1) / a column of `x.T` / `x.reshape(2, 1)` = a pair; an array of points (2,n) = a list of pairs;
    `np.squeeze(v)` of a scalar or 1-element array = the number;
  * `if obj:` on `None`-or-object (`M0u0`, `g`, `M0`, `g_linform`) = `Option.isSome`;
  * `vec = np.zeros(N); for j, e in enumerate(elems): vec[j] = E; return vec` with `N = len(elems)` = `elems.map (fun e => E)`;
  * `np.zeros((N, M))`, `mat[i, j] = v` in a loop nest over `enumerate`, `mat[:, j] = col`, `col[i] = v` =
    `zerosMat`, `enumLoop`, `colLoop`, `zerosVec` of `Stbem.Model.Assembly` (the NumPy prelude of the assembly model);
  * `str(list)`, `str((int, bool))`, `+` of strings = `listStr repr`, `cfgText`, `++`; `"{}/SL_{}_{}x{}_{}.npy".format(dir, a, b,
    c, d)` = the tuple `(a, b, c, d)` of the variable parts (the directory is fixed);
  * `time.time()`, `print(...)` = nothing; `globals()['__x'] = v` + `global __x` in the worker = the worker's argument (fork:
    every worker sees the values at pool creation);
  * `Phi[j]` = `List` indexing (`IndexError`); `number * None` = `TypeError`; `rhs += v` = NumPy in-place add (equal lengths or a
    1-element right-hand side; otherwise `ValueError`).
Anything outside the fragment raises TranslationError (= broken obligation); nothing is guessed or defaulted.
"""
import ast
import os
import sys

sys.path.insert(0, os.path.dirname(os.path.abspath(__file__)))
import panels  # noqa: E402
from panels import Consts, Init, Source, Stats, Tr, TranslationError, check_args, lean_name, lean_rat, paren  # noqa: E402

EST_FILE = os.path.join('src', 'error_estimator.py')
EXAMPLE_FILE = 'example.py'

panels.ASSERT_TAGS.setdefault('len(t) == len(x_hat)', 'len')


def strip_doc(body):
    if body and isinstance(body[0], ast.Expr) and isinstance(body[0].value, ast.Constant) and isinstance(body[0].value.value, str):
        return list(body[1:])
    return list(body)


class Tr2(Tr):
    """`panels.Tr` plus: `sqrt`, `erf`, `PI_SQRT`, `spacetime_evaluated_1`, `time_integrated_kernel`, lambdas of a scalar,
    calls of function-valued parameters, `np.squeeze`, `.reshape(2, 1)`, `self.evaluate`, `self.potential`, local schemes,
    result kind `orat` (`Option Rat`, falling off the end = `none`)."""

    def expr(self, node, env):
        if isinstance(node, ast.Name) and node.id == 'PI_SQRT' and node.id not in env:
            self.need_global_const('PI_SQRT', 'math.sqrt(pi)')
            if ('math', 'pi') not in self.src.imports:
                self.err(node, 'pi is not math.pi')
            return ('S.piSqrt', 'rat')
        return super().expr(node, env)

    def lam(self, node, env):
        a = node.args
        if a.vararg or a.kwarg or a.kwonlyargs or a.defaults or len(a.args) != 1:
            self.err(node, 'lambda with one plain parameter expected')
        p = a.args[0].arg
        uses = [n for n in ast.walk(node.body) if isinstance(n, ast.Name) and n.id == p]
        subs = [n for n in ast.walk(node.body) if isinstance(n, ast.Subscript) and isinstance(n.value, ast.Name) and n.value.id == p]
        if uses and len(subs) == len(uses):
            return super().lam(node, env)
        if subs:
            self.err(node, 'lambda parameter used both as a number and as a pair')
        nm = p + '_s'
        lean_name(self, node, nm)
        if nm in env:
            self.err(node, 'the name %s is already bound' % nm)
        env2 = dict(env)
        env2[p] = (nm, 'rat')
        body = self.rat(node.body, env2)
        return ('(fun (%s : Rat) => %s)' % (nm, body), 'fun1')

    def scheme(self, node, env):
        if isinstance(node, ast.Name) and node.id in env and env[node.id][1] in ('scheme1', 'scheme2'):
            return (env[node.id][0], 1 if env[node.id][1] == 'scheme1' else 2)
        return super().scheme(node, env)

    def point(self, node, env):
        """a (2,1) point: a `vec` value, or `<vec>.reshape(2, 1)`"""
        if isinstance(node, ast.Call) and isinstance(node.func, ast.Attribute) and node.func.attr == 'reshape':
            if node.keywords or [ast.unparse(a) for a in node.args] != ['2', '1']:
                self.err(node, 'only .reshape(2, 1) is supported')
            v = self.expr(node.func.value, env)
            if v[1] != 'vec':
                self.err(node, '.reshape(2, 1) of %s' % v[1])
            return v[0]
        v = self.expr(node, env)
        if v[1] != 'vec':
            self.err(node, 'point expected, got %s' % v[1])
        return v[0]

    def call(self, node, env):
        f = node.func
        if isinstance(f, ast.Name) and not node.keywords:
            name = f.id
            if name in env and env[name][1] == 'vfun' and len(node.args) == 1:
                a = self.expr(node.args[0], env)
                if a[1] != 'vec':
                    self.err(node, 'kernel applied to %s' % a[1])
                return ('(%s %s)' % (env[name][0], paren(a[0])), 'rat')
            if name in env and env[name][1] == 'ffun':   # f(t, point): a function of a time and a (2,1) point
                if len(node.args) != 2:
                    self.err(node, 'a function of (t, x) expected')
                t = self.rat(node.args[0], env)
                x = self.point(node.args[1], env)
                return ('(%s %s %s)' % (env[name][0], paren(t), paren(x)), 'rat')
            if name in ('sqrt', 'erf') and name not in env:
                want = {'sqrt': ('math', 'sqrt'), 'erf': ('scipy.special', 'erf')}[name]
                if want not in self.src.imports:
                    self.err(node, '%s is not %s.%s' % (name, want[0], want[1]))
                if len(node.args) != 1:
                    self.err(node, '%s takes one argument' % name)
                return ('(S.%s %s)' % (name, paren(self.rat(node.args[0], env))), 'rat')
            if name == 'spacetime_evaluated_1':
                if ('single_layer_exact', name) not in self.src.imports:
                    self.err(node, 'not imported from .single_layer_exact')
                args = self.star_args(node.args, env)
                if len(args) != 4 or any(a[1] != 'rat' for a in args):
                    self.err(node, 'four numbers expected')
                self.stats.bump('external_calls')
                return ('(steval_1 S %s)' % ' '.join(paren(a[0]) for a in args), 'rat')
            if name == 'time_integrated_kernel':
                if name not in self.src.functions:
                    self.err(node, 'not a function of this module')
                args = self.star_args(node.args, env)
                if len(args) != 3 or any(a[1] != 'rat' for a in args):
                    self.err(node, 'three numbers expected')
                self.stats.bump('external_calls')
                return ('(fun (v : Rat × Rat) => sl_tik S %s (v.1 ^ 2 + v.2 ^ 2))' % ' '.join(paren(a[0]) for a in args), 'vfun')
        if isinstance(f, ast.Attribute) and not node.keywords:
            if isinstance(f.value, ast.Name) and f.value.id == 'np' and f.attr == 'squeeze' and len(node.args) == 1:
                return (self.rat(node.args[0], env), 'rat')   # squeeze of a scalar / 1-element array
            owner = env.get(f.value.id) if isinstance(f.value, ast.Name) else None
            if owner is not None and owner[1] in ('self', 'slop') and f.attr == 'evaluate':
                if len(node.args) != 4:
                    self.err(node, 'evaluate(elem, t, x_hat, x) expected')
                e = self.expr(node.args[0], env)
                if e[1] != 'elem':
                    self.err(node, 'element expected')
                t, xh = self.rat(node.args[1], env), self.rat(node.args[2], env)
                x = self.point(node.args[3], env)
                self.stats.bump('evaluate_calls')
                return ('(Panels.evaluate gamma_len glue_space S log gs %s %s %s %s)' % (e[0], paren(t), paren(xh), paren(x)), 'rat')
            if owner is not None and owner[1] in ('self', 'slop') and f.attr == 'evaluate_exact':
                if len(node.args) != 3:
                    self.err(node, 'evaluate_exact(elem, t, x) expected')
                e = self.expr(node.args[0], env)
                if e[1] != 'elem':
                    self.err(node, 'element expected')
                t, x = self.rat(node.args[1], env), self.rat(node.args[2], env)
                self.stats.bump('evaluate_exact_calls')
                return ('(evaluate_exact S %s %s %s)' % (e[0], paren(t), paren(x)), 'orat')
            if owner is not None and owner[1] == 'self' and f.attr == 'potential':
                if len(node.args) != 3:
                    self.err(node, 'potential(elem, t, x) expected')
                e = self.expr(node.args[0], env)
                if e[1] != 'elem':
                    self.err(node, 'element expected')
                t = self.rat(node.args[1], env)
                x = self.point(node.args[2], env)
                return ('(potential S gauss gs %s %s %s)' % (e[0], paren(t), paren(x)), 'rat')
            if f.attr == 'integrate':
                args = self.star_args(node.args, env)
                r = self.scheme(f.value, env)
                if r[1] == 1 and len(args) == 3:
                    if args[0][1] != 'fun1' or any(a[1] != 'rat' for a in args[1:]):
                        self.err(node, 'integrand of one variable and two numbers expected')
                    self.stats.bump('rule1_leaves')
                    return ('(integrate1 %s %s %s)' % (paren(r[0]), args[0][0], ' '.join(paren(a[0]) for a in args[1:])), 'rat')
                if r[1] == 2 and len(args) == 5 and self.ret != 'panels':
                    if args[0][1] != 'fun2' or any(a[1] != 'rat' for a in args[1:]):
                        self.err(node, 'integrand of two variables and four numbers expected')
                    self.stats.bump('rule2_leaves')
                    return ('(integrate2 %s %s %s)' % (paren(r[0]), args[0][0], ' '.join(paren(a[0]) for a in args[1:])), 'rat')
        return super().call(node, env)

    def apply_curve(self, node, curve, arg):
        if arg[1] == 'rat':
            return ('(%s %s)' % (curve[0], paren(arg[0])), 'vec')
        return super().apply_curve(node, curve, arg)

    def block(self, stmts, env, ind, first=False):
        pad = ' ' * ind
        if not stmts and self.ret == 'orat':
            self.stats.bump('falls_off_end')
            return [pad + 'none']
        if stmts and isinstance(stmts[0], ast.Assert) and ast.unparse(stmts[0].test) == 'x.shape == (2, 1)':
            if env.get('x', (None, None))[1] != 'vec' or stmts[0].msg is not None:
                self.err(stmts[0], 'shape assertion on something that is not the (2,1) point')
            self.stats.bump('shape_asserts')
            return [pad + '-- `assert x.shape == (2, 1)`: `x` is a pair by type'] + self.block(stmts[1:], env, ind)
        return super().block(stmts, env, ind, first)

    def ret_lines(self, st, env, ind):
        if self.ret == 'orat':
            return [' ' * ind + 'some %s' % paren(self.rat(st.value, env))]
        return super().ret_lines(st, env, ind)


# ---------------------------------------------------------------------------------------------------------
SL_ARGS = '(gamma_len : Rat) (glue_space : Bool) (S : Fns) (log : Rule1) (gs : List Piece)'


def gen_evaluate_exact(src, init, consts, stats):
    fn = src.method('evaluate_exact')
    check_args(src, fn, ['self', 'elem_trial', 't', 'x'])
    tr = Tr2(src, init, consts, stats, 'evaluate_exact', 'orat')
    env = {'self': ('self', 'self'), 'elem_trial': ('elem_trial', 'elem'), 't': ('t', 'rat'), 'x': ('x', 'rat')}
    body = tr.block(fn.body, env, 2, first=True)
    return ['/-- `SingleLayerOperator.evaluate_exact(elem_trial, t, x)`; `none` = no branch applies (Python returns `None`) -/',
            'def evaluate_exact (S : Fns) (elem_trial : Elem) (t x : Rat) : Option Rat :='] + body


def gen_potential(src, init, consts, stats):
    fn = src.method('potential')
    check_args(src, fn, ['self', 'elem_trial', 't', 'x'])
    tr = Tr2(src, init, consts, stats, 'potential', 'rat')
    env = {'self': ('self', 'self'), 'elem_trial': ('elem_trial', 'elem'), 't': ('t', 'rat'), 'x': ('x', 'vec')}
    if init.rule('gauss_scheme') != ('gauss', 1):
        raise TranslationError('__init__: self.gauss_scheme is not a Gauss rule')
    body = tr.block(fn.body, env, 2, first=True)
    return ['/-- `SingleLayerOperator.potential(elem_trial, t, x)`; `gauss` = `self.gauss_scheme` -/',
            'def potential (S : Fns) (gauss : Rule1) (gs : List Piece) (elem_trial : Elem) (t : Rat) (x : Rat × Rat) : Rat :='] + body


def gen_vector(src, init, consts, stats, name, params, header, doc):
    """`elems = list(self.mesh.leaf_elements); N = len(elems); vec = np.zeros(shape=N); [locals]; for j, e in enumerate(elems):
    [locals]; vec[j] = E; return vec`  ->  `leaf_elements.map fun e => E`"""
    fn = src.method(name)
    got = [a.arg for a in fn.args.args]
    if got != ['self'] + [p[0] for p in params] or fn.args.vararg or fn.args.kwarg or fn.args.kwonlyargs:
        raise TranslationError('%s: parameters %s' % (name, got))
    defaults = [ast.unparse(d) for d in fn.args.defaults]
    want_defaults = [p[2] for p in params if len(p) > 2]
    if defaults != want_defaults:
        raise TranslationError('%s: defaults %s (expected %s)' % (name, defaults, want_defaults))
    tr = Tr2(src, init, consts, stats, name, 'rat')
    env = {'self': ('self', 'self')}
    for p in params:
        env[p[0]] = (p[0], p[1])
    body = strip_doc(fn.body)
    lines = []
    state = {}
    i = 0
    while i < len(body):
        st = body[i]
        text = ast.unparse(st)
        if isinstance(st, ast.Assign) and len(st.targets) == 1 and isinstance(st.targets[0], ast.Name):
            tg = st.targets[0].id
            vt = ast.unparse(st.value)
            if vt == 'list(self.mesh.leaf_elements)':
                if 'elems' in state:
                    tr.err(st, 'second element list')
                state['elems'] = tg
            elif 'elems' in state and vt == 'len(%s)' % state['elems']:
                state['N'] = tg
            elif 'N' in state and vt == 'np.zeros(shape=%s)' % state['N']:
                state['vec'] = tg
            elif vt == 'self.mesh.gamma_space.eval(x_hat)' and env.get('x_hat', (0, 0))[1] == 'rat':
                lean_name(tr, st, tg)
                lines.append('  let %s := gamma_eval x_hat' % tg)
                env[tg] = (tg, 'vec')
                state['gamma_eval'] = True
            elif isinstance(st.value, ast.Call) and isinstance(st.value.func, ast.Name) and st.value.func.id == 'gauss_quadrature_scheme':
                if ('quadrature', 'gauss_quadrature_scheme') not in src.imports or st.value.keywords or len(st.value.args) != 1:
                    tr.err(st, 'gauss_quadrature_scheme(n) expected')
                a = tr.expr(st.value.args[0], env)
                if a[1] != 'nat':
                    tr.err(st, 'order of type %s' % a[1])
                lean_name(tr, st, tg)
                lines.append('  let %s := gaussOf %s' % (tg, a[0]))
                env[tg] = (tg, 'scheme1')
            elif isinstance(st.value, ast.Call) and isinstance(st.value.func, ast.Name) and st.value.func.id == 'ProductScheme2D':
                if ('quadrature', 'ProductScheme2D') not in src.imports or st.value.keywords or len(st.value.args) != 2:
                    tr.err(st, 'ProductScheme2D(a, b) expected')
                a, b = tr.scheme(st.value.args[0], env), tr.scheme(st.value.args[1], env)
                if a[1] != 1 or b[1] != 1:
                    tr.err(st, 'ProductScheme2D of non-1D schemes')
                lean_name(tr, st, tg)
                lines.append('  let %s := product2 %s %s' % (tg, paren(a[0]), paren(b[0])))
                env[tg] = (tg, 'scheme2')
            else:
                tr.err(st, 'unsupported assignment')
        elif isinstance(st, ast.For):
            if not all(k in state for k in ('elems', 'N', 'vec')):
                tr.err(st, 'loop before elems / N / vec are defined')
            j, ev, lst = panels._enumerate_loop(tr, st)
            if lst != state['elems']:
                tr.err(st, 'loop over another list')
            env2 = dict(env)
            env2[ev] = (ev, 'elem')
            inner = []
            stmts = list(st.body)
            while len(stmts) > 1:
                s = stmts.pop(0)
                if not (isinstance(s, ast.Assign) and len(s.targets) == 1 and isinstance(s.targets[0], ast.Name)):
                    tr.err(s, 'unsupported statement in the loop')
                v = tr.expr(s.value, env2)
                if v[1] not in ('fun1', 'fun2', 'rat', 'vec'):
                    tr.err(s, 'loop-local value of type %s' % v[1])
                nm = lean_name(tr, s, s.targets[0].id)
                inner.append('    let %s := %s' % (nm, v[0]))
                env2[nm] = (nm, v[1])
            s = stmts[0]
            if not (isinstance(s, ast.Assign) and ast.unparse(s.targets[0]) == '%s[%s]' % (state['vec'], j)):
                tr.err(s, '%s[%s] = ... expected' % (state['vec'], j))
            v = tr.expr(s.value, env2)
            if v[1] != 'rat':
                tr.err(s, 'entry of type %s' % v[1])
            lines.append('  leaf_elements.map fun %s =>' % ev)
            lines += inner + ['    ' + v[0]]
            state['loop'] = True
            if i + 2 != len(body) or ast.unparse(body[i + 1]) != 'return %s' % state['vec']:
                tr.err(st, '`return %s` directly after the loop expected' % state['vec'])
            i += 1
        else:
            tr.err(st, 'unsupported statement (%s)' % text[:60])
        i += 1
    if 'loop' not in state:
        raise TranslationError('%s: no loop found' % name)
    stats.bump('vector_methods')
    return ['/-- %s -/' % doc, header] + lines


# ---- bilform_matrix: everything ---------------------------------------------------------------------------
class NatTr:
    """integer / boolean expressions of `bilform_matrix`"""
    def __init__(self, tr):
        self.tr = tr

    def nat(self, node, env):
        if isinstance(node, ast.Constant) and isinstance(node.value, int) and not isinstance(node.value, bool) and node.value >= 0:
            return str(node.value)
        if isinstance(node, ast.Name) and node.id in env and env[node.id][1] == 'nat':
            return env[node.id][0]
        if isinstance(node, ast.BinOp) and isinstance(node.op, (ast.Mult, ast.Add, ast.FloorDiv)):
            op = {ast.Mult: '*', ast.Add: '+', ast.FloorDiv: '/'}[type(node.op)]
            return '(%s %s %s)' % (self.nat(node.left, env), op, self.nat(node.right, env))
        if isinstance(node, ast.Call) and ast.unparse(node) == 'mp.cpu_count()':
            if (None, 'mp') not in self.tr.src.imports and (None, 'multiprocessing') not in self.tr.src.imports:
                self.tr.err(node, 'mp is not the multiprocessing module')
            return 'cpu_count'
        if isinstance(node, ast.Call) and isinstance(node.func, ast.Name) and node.func.id == 'len' and len(node.args) == 1 \
                and isinstance(node.args[0], ast.Name) and env.get(node.args[0].id, (0, 0))[1] == 'elist':
            return '%s.length' % env[node.args[0].id][0]
        self.tr.err(node, 'unsupported integer expression')

    def cond(self, node, env):
        if isinstance(node, ast.Compare) and len(node.ops) == 1:
            if isinstance(node.ops[0], (ast.Is, ast.IsNot)) and ast.unparse(node.comparators[0]) == 'None':
                lhs = ast.unparse(node.left)
                if lhs == 'self.cache_dir':
                    self.tr.init._once('cache_dir')
                    if ast.unparse(self.tr.init.assign['cache_dir']) != 'cache_dir':
                        self.tr.err(node, 'self.cache_dir is not the constructor argument')
                    c = '(cache_dir_set = true)'
                    return '(¬ %s)' % c if isinstance(node.ops[0], ast.Is) else c
                self.tr.err(node, 'unsupported None test')
            sym = {ast.Lt: '<', ast.LtE: '≤', ast.Gt: '>', ast.GtE: '≥', ast.Eq: '=', ast.NotEq: '≠'}.get(type(node.ops[0]))
            if sym is None:
                self.tr.err(node, 'unsupported comparison')
            return '(%s %s %s)' % (self.nat(node.left, env), sym, self.nat(node.comparators[0], env))
        if isinstance(node, ast.UnaryOp) and isinstance(node.op, ast.Not):
            return '(¬ %s)' % self.cond(node.operand, env)
        if isinstance(node, ast.Name) and node.id in env and env[node.id][1] == 'bool':
            return '(%s = true)' % env[node.id][0]
        self.tr.err(node, 'unsupported condition')


def is_print(st):
    return isinstance(st, ast.Expr) and isinstance(st.value, ast.Call) and isinstance(st.value.func, ast.Name) and st.value.func.id == 'print'


def bare_pass_handler(tr, st):
    if not (len(st.handlers) == 1 and st.handlers[0].type is None and len(st.handlers[0].body) == 1
            and isinstance(st.handlers[0].body[0], ast.Pass) and not st.orelse and not st.finalbody):
        tr.err(st, '`try: ... except: pass` expected')


def gen_worker(src, init, consts, stats):
    """`MP_SL_matrix_col(j)` abstractly: against a worker's copy `(g_SL_bilform, g_elems_test, g_elems_trial)` of the globals"""
    fn = src.functions.get('MP_SL_matrix_col')
    if fn is None:
        raise TranslationError('function MP_SL_matrix_col not found')
    check_args(src, fn, ['j'])
    tr = Tr2(src, init, consts, stats, 'MP_SL_matrix_col', 'rat')
    body = strip_doc(fn.body)
    texts = [ast.unparse(s) for s in body]
    if len(body) != 5 or texts[0] != 'global __SL, __elems_test, __elems_trial' or texts[1] != 'elem_trial = __elems_trial[j]' \
            or texts[2] != 'col = np.zeros(len(__elems_test))' or texts[4] != 'return col':
        raise TranslationError('MP_SL_matrix_col: unexpected statements %s' % texts)
    i, ev, lst = panels._enumerate_loop(tr, body[3])
    if lst != '__elems_test' or ev == 'elem_trial':
        tr.err(body[3], 'loop over __elems_test expected')
    stmts = list(body[3].body)
    ti = {'elem_trial': 'elem_trial', ev: ev}

    def tcond(node):
        """comparisons of `<elem>.time_interval[k]`"""
        if isinstance(node, ast.Compare) and len(node.ops) == 1:
            sym = {ast.Lt: '<', ast.LtE: '≤', ast.Gt: '>', ast.GtE: '≥'}.get(type(node.ops[0]))
            sides = []
            for s in (node.left, node.comparators[0]):
                ok = (isinstance(s, ast.Subscript) and isinstance(s.value, ast.Attribute) and s.value.attr == 'time_interval'
                      and isinstance(s.value.value, ast.Name) and s.value.value.id in ti and isinstance(s.slice, ast.Constant)
                      and s.slice.value in (0, 1))
                if not ok:
                    tr.err(node, 'comparison of time interval end points expected')
                sides.append('(time_interval %s).%d' % (ti[s.value.value.id], s.slice.value + 1))
            if sym is None:
                tr.err(node, 'unsupported comparison')
            return '(%s %s %s)' % (sides[0], sym, sides[1])
        tr.err(node, 'unsupported skip condition')
    lines = []
    ind = 6
    while stmts and isinstance(stmts[0], ast.If) and not stmts[0].orelse and len(stmts[0].body) == 1 and isinstance(stmts[0].body[0], ast.Continue):
        lines += [' ' * ind + 'if %s then old   -- continue' % tcond(stmts[0].test), ' ' * ind + 'else']
        ind += 2
        stmts = stmts[1:]
        stats.bump('skip_rules')
    if len(stmts) != 1 or not isinstance(stmts[0], ast.Assign) or ast.unparse(stmts[0].targets[0]) != 'col[%s]' % i:
        tr.err(body[3], 'loop body `[if ...: continue] col[i] = ...` expected')
    v = stmts[0].value
    if not (isinstance(v, ast.Call) and ast.unparse(v.func) == '__SL.bilform' and not v.keywords and len(v.args) == 2
            and all(isinstance(a, ast.Name) and a.id in ti for a in v.args)):
        tr.err(stmts[0], '__SL.bilform(<elem>, <elem>) expected')
    lines.append(' ' * ind + 'g_SL_bilform %s %s' % (ti[v.args[0].id], ti[v.args[1].id]))
    return (['/-- `MP_SL_matrix_col(j)` against a copy `(__SL.bilform, __elems_test, __elems_trial)` of the module globals;',
             '`g_SL_bilform a b` = `__SL.bilform(a, b)` -/',
             'def MP_SL_matrix_col {E V : Type} [Zero V] (g_SL_bilform : E → E → V) (time_interval : E → Rat × Rat)',
             '    (g_elems_test g_elems_trial : List E) (j : Nat) : Except String (List V) :=',
             '  match g_elems_trial[j]? with',
             '  | none => .error "raise:IndexError"',
             '  | some elem_trial =>',
             '    let col : List V := zerosVec g_elems_test.length',
             '    .ok (enumLoop (fun %s old =>' % ev] + lines + ['      ) g_elems_test 0 col)'])


def gen_bilform_matrix(src, init, consts, stats):
    fn = src.method('bilform_matrix')
    got = [a.arg for a in fn.args.args]
    if got != ['self', 'elems_test', 'elems_trial', 'use_mp'] or [ast.unparse(d) for d in fn.args.defaults] != ['None', 'None', 'False']:
        raise TranslationError('bilform_matrix: signature %s' % ast.unparse(fn.args))
    tr = Tr2(src, init, consts, stats, 'bilform_matrix', 'rat')
    nt = NatTr(tr)
    for a in ('quad_order', 'pw_exact', 'mesh'):
        if ast.unparse(init._once(a)) != a:
            raise TranslationError('__init__: self.%s is not the constructor argument' % a)
    env0 = {'elems_test': ('elems_test', 'optlist'), 'elems_trial': ('elems_trial', 'optlist'), 'use_mp': ('use_mp', 'bool')}
    st8 = dict(timers=set(), globals={}, cache_blocks=0)

    def elist(node, env):
        if ast.unparse(node) == 'list(self.mesh.leaf_elements)':
            return 'leaf_elements'
        if isinstance(node, ast.Name) and env.get(node.id, (0, 0))[1] == 'elist':
            return env[node.id][0]
        tr.err(node, 'element list expected')

    def loop_nest(node, env):
        """`for i, a in enumerate(L1): for j, b in enumerate(L2): mat[i, j] = self.bilform(x, y)` -> enumLoop term"""
        i, e1, l1 = panels._enumerate_loop(tr, node)
        if len(node.body) != 1:
            tr.err(node, 'single inner loop expected')
        j, e2, l2 = panels._enumerate_loop(tr, node.body[0])
        inner = node.body[0]
        if len(inner.body) != 1 or not isinstance(inner.body[0], ast.Assign):
            tr.err(inner, 'single assignment in the inner loop expected')
        asg = inner.body[0]
        if ast.unparse(asg.targets[0]) != 'mat[%s, %s]' % (i, j):
            tr.err(asg, 'mat[%s, %s] = ... expected (first index = outer loop)' % (i, j))
        if e1 == e2 or any(env.get(l, (0, 0))[1] != 'elist' for l in (l1, l2)):
            tr.err(node, 'loops over two element lists expected')
        v = asg.value
        if not (isinstance(v, ast.Call) and ast.unparse(v.func) == 'self.bilform' and not v.keywords and len(v.args) == 2
                and all(isinstance(a, ast.Name) and a.id in (e1, e2) for a in v.args)):
            tr.err(asg, 'self.bilform(<elem>, <elem>) expected')
        stats.bump('matrix_loop_nests')
        return ('(enumLoop (fun %s row => enumLoop (fun %s _ => self_bilform %s %s) %s 0 row) %s 0 mat)' %
                (e1, e2, v.args[0].id, v.args[1].id, env[l2][0], env[l1][0]))

    def pool_loop(node, env):
        it = node.iter
        ok = (isinstance(node.target, ast.Tuple) and [ast.unparse(e) for e in node.target.elts] == ['j', 'col'] and
              isinstance(it, ast.Call) and ast.unparse(it.func) == 'enumerate' and len(it.args) == 1 and not it.keywords)
        if not ok:
            tr.err(node, 'pool loop `for j, col in enumerate(...)` expected')
        im = it.args[0]
        if not (isinstance(im, ast.Call) and isinstance(im.func, ast.Attribute) and im.func.attr == 'imap' and not im.keywords
                and len(im.args) == 3 and ast.unparse(im.args[0]) == 'MP_SL_matrix_col'):
            tr.err(node, '<pool>.imap(MP_SL_matrix_col, range(M), chunk) expected')
        pool = im.func.value
        if not (isinstance(pool, ast.Call) and ast.unparse(pool.func) == 'mp.Pool' and len(pool.args) == 1 and not pool.keywords):
            tr.err(node, 'mp.Pool(n) expected')
        workers = nt.nat(pool.args[0], env)
        rng = im.args[1]
        if not (isinstance(rng, ast.Call) and ast.unparse(rng.func) == 'range' and len(rng.args) == 1):
            tr.err(node, 'range(M) expected')
        n_tasks = nt.nat(rng.args[0], env)
        chunk = nt.nat(im.args[2], env)
        if [ast.unparse(s) for s in node.body] != ['mat[:, j] = col']:
            tr.err(node, 'loop body `mat[:, j] = col` expected')
        g = st8['globals']
        if sorted(g) != ['__SL', '__elems_test', '__elems_trial'] or g['__SL'] != 'self':
            tr.err(node, 'globals handed to the workers: %s' % g)
        stats.bump('pool_paths')
        return ('((poolMap (fun _ j => MP_SL_matrix_col self_bilform time_interval %s %s j) %s ⟨%s, %s, assign, order⟩).map '
                'fun cols => colLoop cols 0 mat)' % (g['__elems_test'], g['__elems_trial'], n_tasks, workers, chunk))

    def blk(stmts, env, ind):
        pad = ' ' * ind
        if not stmts:
            raise TranslationError('bilform_matrix: a path falls off the end')
        st, rest = stmts[0], stmts[1:]
        text = ast.unparse(st)
        if is_print(st):
            return blk(rest, env, ind)
        if isinstance(st, ast.Return):
            if rest or st.value is None or env.get(ast.unparse(st.value), (0, 0))[1] != 'mat':
                tr.err(st, '`return mat` at the end of a path expected')
            return [pad + '(d, .ok mat)']
        if isinstance(st, ast.Assign) and len(st.targets) == 1:
            tg, v = st.targets[0], st.value
            if isinstance(tg, ast.Name):
                vt = ast.unparse(v)
                if vt == 'time.time()':
                    st8['timers'].add(tg.id)
                    return blk(rest, env, ind)
                if vt.startswith('len('):
                    env2 = dict(env)
                    env2[tg.id] = (lean_name(tr, st, tg.id), 'nat')
                    return [pad + 'let %s := %s' % (tg.id, nt.nat(v, env))] + blk(rest, env2, ind)
                if vt == 'mp.cpu_count()':
                    env2 = dict(env)
                    env2[tg.id] = (lean_name(tr, st, tg.id), 'nat')
                    return [pad + 'let %s := cpu_count' % tg.id] + blk(rest, env2, ind)
                if isinstance(v, ast.Call) and ast.unparse(v.func) == 'np.zeros' and tg.id == 'mat':
                    if v.keywords or len(v.args) != 1 or not isinstance(v.args[0], ast.Tuple) or len(v.args[0].elts) != 2:
                        tr.err(st, 'np.zeros((N, M)) expected')
                    n, m = (nt.nat(e, env) for e in v.args[0].elts)
                    env2 = dict(env)
                    env2['mat'] = ('mat', 'mat')
                    return [pad + 'let mat : Mat V := zerosMat %s %s' % (n, m)] + blk(rest, env2, ind)
            if isinstance(tg, ast.Subscript) and ast.unparse(tg.value) == 'globals()' and isinstance(tg.slice, ast.Constant):
                key = tg.slice.value
                if key == '__SL' and ast.unparse(v) == 'self':
                    st8['globals'][key] = 'self'
                elif isinstance(v, ast.Name) and env.get(v.id, (0, 0))[1] == 'elist':
                    st8['globals'][key] = env[v.id][0]
                else:
                    tr.err(st, 'unsupported global')
                return blk(rest, env, ind)
            tr.err(st, 'unsupported assignment')
        if isinstance(st, ast.For):
            if 'mat' not in env:
                tr.err(st, 'loop before mat is defined')
            return [pad + 'let mat : Mat V := ' + loop_nest(st, env)] + blk(rest, env, ind)
        if isinstance(st, ast.If):
            # `if X is None: X = E`  (default of an optional argument)
            if (isinstance(st.test, ast.Compare) and isinstance(st.test.ops[0], ast.Is) and isinstance(st.test.left, ast.Name)
                    and ast.unparse(st.test.comparators[0]) == 'None' and env.get(st.test.left.id, (0, 0))[1] == 'optlist'):
                x = st.test.left.id
                if st.orelse or len(st.body) != 1 or not (isinstance(st.body[0], ast.Assign) and ast.unparse(st.body[0].targets[0]) == x):
                    tr.err(st, '`if x is None: x = default` expected')
                dflt = elist(st.body[0].value, env)
                env2 = dict(env)
                env2[x] = (x, 'elist')
                stats.bump('defaults')
                return [pad + 'let %s : List E := (match %s with | none => %s | some l => l)' % (x, x, dflt)] + blk(rest, env2, ind)
            # the two cache blocks
            if ast.unparse(st.test) == 'self.cache_dir is not None' and not st.orelse:
                c = nt.cond(st.test, env)
                st8['cache_blocks'] += 1
                if st8['cache_blocks'] == 1:
                    return cache_load(st, rest, env, ind, c)
                if st8['cache_blocks'] == 2:
                    return cache_save(st, rest, env, ind, c)
                tr.err(st, 'third cache block')
            c = nt.cond(st.test, env)
            stats.bump('branches')
            if Tr.always_returns(st.body) and not st.orelse:
                return [pad + 'if %s then' % c] + blk(list(st.body), env, ind + 2) + [pad + 'else'] + blk(rest, env, ind + 2)
            # `if not use_mp: <fill mat> else: <pool>`: both branches leave `mat`; the pool may raise
            if st.orelse and not Tr.has_return(st.body) and not Tr.has_return(st.orelse):
                a, b = branch_mat(list(st.body), env), branch_mat(list(st.orelse), env)
                return ([pad + 'match (if %s then %s' % (c, a), pad + '    else %s) with' % b,
                         pad + '| .error e => (d, .error e)', pad + '| .ok mat =>'] + blk(rest, env, ind + 2))
            tr.err(st, 'unsupported if')
        tr.err(st, 'unsupported statement (%s)' % text[:60])

    def branch_mat(stmts, env):
        """a branch that only updates `mat`: value of type `Except String (Mat V)`"""
        env = dict(env)
        out = None
        for s in stmts:
            if is_print(s):
                continue
            if isinstance(s, ast.Assign) and isinstance(s.targets[0], ast.Subscript) and ast.unparse(s.targets[0].value) == 'globals()':
                key = s.targets[0].slice.value
                if key == '__SL' and ast.unparse(s.value) == 'self':
                    st8['globals'][key] = 'self'
                elif isinstance(s.value, ast.Name) and env.get(s.value.id, (0, 0))[1] == 'elist':
                    st8['globals'][key] = env[s.value.id][0]
                else:
                    tr.err(s, 'unsupported global')
                continue
            if isinstance(s, ast.Assign) and isinstance(s.targets[0], ast.Name) and ast.unparse(s.value) == 'mp.cpu_count()':
                env[s.targets[0].id] = ('cpu_count', 'nat')
                continue
            if isinstance(s, ast.For) and out is None:
                if len(s.body) == 1 and isinstance(s.body[0], ast.For):
                    out = '(Except.ok %s)' % loop_nest(s, env)
                else:
                    out = pool_loop(s, env)
                continue
            tr.err(s, 'unsupported statement in a branch that fills mat')
        if out is None:
            raise TranslationError('bilform_matrix: a branch does not fill mat')
        return out

    def cache_load(st, rest, env, ind, c):
        pad = ' ' * ind
        body = list(st.body)
        if len(body) != 3:
            tr.err(st, 'md5 = ...; cache_fn = ...; try: load expected')
        # md5 = hashlib.md5((<text>).encode()).hexdigest()
        m = body[0]
        ok = (isinstance(m, ast.Assign) and ast.unparse(m.targets[0]) == 'md5' and isinstance(m.value, ast.Call)
              and isinstance(m.value.func, ast.Attribute) and m.value.func.attr == 'hexdigest' and not m.value.args)
        h = m.value.func.value if ok else None
        ok = ok and isinstance(h, ast.Call) and ast.unparse(h.func) == 'hashlib.md5' and len(h.args) == 1 and (None, 'hashlib') in src.imports
        enc = h.args[0] if ok else None
        ok = ok and isinstance(enc, ast.Call) and isinstance(enc.func, ast.Attribute) and enc.func.attr == 'encode' and not enc.args
        if not ok:
            tr.err(m, 'md5 = hashlib.md5((text).encode()).hexdigest() expected')

        def summands(n):
            if isinstance(n, ast.BinOp) and isinstance(n.op, ast.Add):
                return summands(n.left) + summands(n.right)
            return [n]

        def text_of(n):
            if not (isinstance(n, ast.Call) and isinstance(n.func, ast.Name) and n.func.id == 'str' and len(n.args) == 1 and not n.keywords):
                tr.err(n, 'str(...) expected')
            a = n.args[0]
            if ast.unparse(a) == 'self.mesh.gamma_space':
                return 'str_gamma'
            if isinstance(a, ast.Name) and env.get(a.id, (0, 0))[1] == 'elist':
                return '(listStr repr %s)' % env[a.id][0]
            if isinstance(a, ast.Tuple) and [ast.unparse(e) for e in a.elts] == ['self.quad_order', 'self.pw_exact']:
                return '(cfgText quad_order pw_exact)'
            tr.err(n, 'unsupported part of the hashed text')
        parts = [text_of(n) for n in summands(enc.func.value)]
        total = parts[0]
        for p in parts[1:]:
            total = '(%s ++ %s)' % (total, p)      # Python: ((a + b) + c) + d
        # cache_fn = "{}/SL_{}_{}x{}_{}.npy".format(self.cache_dir, <parts>)
        cf = body[1]
        ok = (isinstance(cf, ast.Assign) and ast.unparse(cf.targets[0]) == 'cache_fn' and isinstance(cf.value, ast.Call)
              and isinstance(cf.value.func, ast.Attribute) and cf.value.func.attr == 'format'
              and isinstance(cf.value.func.value, ast.Constant) and not cf.value.keywords)
        if not ok or cf.value.func.value.value != '{}/SL_{}_{}x{}_{}.npy' or len(cf.value.args) != 5 \
                or ast.unparse(cf.value.args[0]) != 'self.cache_dir':
            tr.err(cf, 'cache_fn = "{}/SL_{}_{}x{}_{}.npy".format(self.cache_dir, a, b, c, d) expected')
        comps = []
        for a in cf.value.args[1:]:
            t = ast.unparse(a)
            if t == 'self.mesh.gamma_space':
                comps.append(('str_gamma', 'str'))
            elif t == 'md5':
                comps.append(('md5', 'hash'))
            elif isinstance(a, ast.Name) and env.get(a.id, (0, 0))[1] == 'nat':
                comps.append((env[a.id][0], 'nat'))
            else:
                tr.err(a, 'unsupported part of the file name')
        if [k for _, k in comps] != ['str', 'nat', 'nat', 'hash']:
            tr.err(cf, 'file name parts must be (curve, int, int, md5)')
        # try: mat = np.load(cache_fn); print; return mat  except: pass
        t = body[2]
        if not isinstance(t, ast.Try):
            tr.err(t, 'try expected')
        bare_pass_handler(tr, t)
        tb = [s for s in t.body if not is_print(s)]
        if [ast.unparse(s) for s in tb] != ['mat = np.load(cache_fn)', 'return mat']:
            tr.err(t, 'try: mat = np.load(cache_fn); return mat expected')
        stats.bump('cache_blocks')
        return ([pad + '-- `if self.cache_dir is not None:` (md5 and cache_fn are pure; they are used under this condition only)',
                 pad + 'let md5 := md5_hexdigest %s' % total,
                 pad + 'let cache_fn := (%s)' % ', '.join(c0 for c0, _ in comps),
                 pad + 'match (if %s then load (d cache_fn) else none) with   -- try: mat = np.load(cache_fn) ... except: pass' % c,
                 pad + '| some mat => (d, .ok mat)',
                 pad + '| none =>'] + blk(rest, env, ind + 2))

    def cache_save(st, rest, env, ind, c):
        pad = ' ' * ind
        if len(st.body) != 1 or not isinstance(st.body[0], ast.Try):
            tr.err(st, 'try: np.save expected')
        t = st.body[0]
        bare_pass_handler(tr, t)
        tb = [s for s in t.body if not is_print(s)]
        if [ast.unparse(s) for s in tb] != ['np.save(cache_fn, mat)'] or 'mat' not in env:
            tr.err(t, 'try: np.save(cache_fn, mat) expected')
        stats.bump('cache_blocks')
        return ([pad + 'let d := (if %s then save d cache_fn mat sv else d)   -- try: np.save(cache_fn, mat) except: pass' % c] +
                blk(rest, env, ind))

    lines = blk(strip_doc(fn.body), env0, 2)
    # timers are used in print calls only
    for nm in st8['timers']:
        for n in ast.walk(fn):
            if isinstance(n, ast.Name) and n.id == nm and isinstance(n.ctx, ast.Load):
                par = [p for p in ast.walk(fn) if is_print(p) and any(x is n for x in ast.walk(p))]
                if not par:
                    raise TranslationError('bilform_matrix: the timer %s is used outside print' % nm)
    if st8['cache_blocks'] != 2:
        raise TranslationError('bilform_matrix: %d cache blocks (expected load and save)' % st8['cache_blocks'])
    return (['/-- `SingleLayerOperator.bilform_matrix(elems_test=None, elems_trial=None, use_mp=False)` — the whole method.',
             '`self_bilform a b` = `self.bilform(a, b)`; `d` = the cache directory before the call (file name ↦ state), the result is',
             'the directory after the call and the returned matrix (or the exception of a worker); `sv` = how `np.save` ends;',
             '`cpu_count` = `mp.cpu_count()`, `assign` / `order` = which worker runs which chunk, in which order chunks complete -/',
             'def bilform_matrix {E V Hh : Type} [Zero V] [DecidableEq Hh] (self_bilform : E → E → V) (time_interval : E → Rat × Rat)',
             '    (leaf_elements : List E) (cache_dir_set : Bool) (str_gamma : List Char) (repr : E → List Char)',
             '    (quad_order : Nat) (pw_exact : Bool) (md5_hexdigest : List Char → Hh) (cpu_count : Nat) (assign : Nat → Nat)',
             '    (order : List Nat) (sv : SaveOutcome) (d : Dir (List Char × Nat × Nat × Hh) (Mat V))',
             '    (elems_test elems_trial : Option (List E)) (use_mp : Bool) :',
             '    Dir (List Char × Nat × Nat × Hh) (Mat V) × Except String (Mat V) :='] + lines)


# ---- ErrorEstimator.residual ------------------------------------------------------------------------------
def gen_residual(repo, src, init, consts, stats):
    est = Source.__new__(Source)
    import warnings
    est.text = open(os.path.join(repo, EST_FILE)).read()
    with warnings.catch_warnings():
        warnings.simplefilter('ignore')
        est.tree = ast.parse(est.text)
    cls = [n for n in est.tree.body if isinstance(n, ast.ClassDef) and n.name == 'ErrorEstimator']
    if len(cls) != 1:
        raise TranslationError('class ErrorEstimator not found exactly once')
    meths = [n for n in cls[0].body if isinstance(n, ast.FunctionDef) and n.name == 'residual']
    if len(meths) != 1:
        raise TranslationError('ErrorEstimator.residual not found exactly once')
    outer = meths[0]
    got = [a.arg for a in outer.args.args]
    if got != ['self', 'elems', 'Phi', 'SL', 'M0u0', 'g', 'SL_exact_eval'] or [ast.unparse(d) for d in outer.args.defaults] != ['None', 'None', 'False']:
        raise TranslationError('residual: signature %s' % ast.unparse(outer.args))
    body = strip_doc(outer.body)
    if len(body) != 3 or ast.unparse(body[0]) != 'SL._init_elems(elems)' or not isinstance(body[1], ast.FunctionDef) \
            or ast.unparse(body[2]) != 'return %s' % body[1].name:
        raise TranslationError('residual: `SL._init_elems(elems)`, the closure, `return <closure>` expected')
    inner = body[1]
    for dcr in inner.decorator_list:
        if not ast.unparse(dcr).startswith('cython.locals('):
            raise TranslationError('residual: unsupported decorator %s' % ast.unparse(dcr))
    if [a.arg for a in inner.args.args] != ['t', 'x_hat', 'gamma'] or inner.args.defaults or inner.args.vararg or inner.args.kwarg:
        raise TranslationError('residual closure: parameters %s' % ast.unparse(inner.args))
    # the translator of expressions works on error_estimator.py but resolves `SL.` calls against single_layer.py
    est.imports = src.imports
    est.functions = src.functions
    est.methods = src.methods
    est.cls = src.cls
    tr = Tr2(est, init, consts, stats, 'residual', 'rat')
    ib = strip_doc(inner.body)
    texts = [ast.unparse(s) for s in ib]
    if len(ib) != 5 or texts[0] != 'assert len(t) == len(x_hat)' or texts[1] != 'x = gamma(x_hat)' \
            or texts[2] != 'result = np.zeros(len(t))' or texts[4] != 'return result' or not isinstance(ib[3], ast.For):
        raise TranslationError('residual closure: unexpected statements %s' % [t[:50] for t in texts])
    loop = ib[3]
    if ast.unparse(loop.target) != '(i, (t, x_hat, x))' or ast.unparse(loop.iter) != 'enumerate(zip(t, x_hat, x.T))' or loop.orelse:
        raise TranslationError('residual closure: loop `for i, (t, x_hat, x) in enumerate(zip(t, x_hat, x.T))` expected')
    env = {'SL': ('SL', 'slop'), 'elems': ('elems', 'elems'), 't': ('t', 'rat'), 'x_hat': ('x_hat', 'rat'), 'x': ('x', 'vec'),
           'M0u0': ('M0u0', 'optffun'), 'g': ('g', 'optffun'), 'SL_exact_eval': ('SL_exact_eval', 'bool'), 'gamma': ('gamma', 'pieceidx')}
    out = ['  let r := (0 : Rat)   -- `result[i]` of `np.zeros(len(t))`']
    cur = 'r'

    def cond(node, env):
        if isinstance(node, ast.BoolOp):
            op = ' ∧ ' if isinstance(node.op, ast.And) else ' ∨ '
            return '(' + op.join(cond(v, env) for v in node.values) + ')'
        if isinstance(node, ast.Compare) and len(node.ops) == 1 and isinstance(node.ops[0], ast.Is):
            l, r = node.left, node.comparators[0]
            if isinstance(l, ast.Attribute) and l.attr == 'gamma_space' and isinstance(r, ast.Name) and env.get(r.id, (0, 0))[1] == 'pieceidx':
                e = tr.expr(l.value, env)
                if e[1] != 'elem':
                    tr.err(node, 'gamma_space of a non-element')
                return '(%s.piece = %s)' % (e[0], env[r.id][0])
            tr.err(node, 'unsupported `is`')
        return tr.cond(node, env)

    def accumulate(st, env, acc, ind):
        """`acc += Phi[j] * <SL evaluation>` -> do-lines ending in the new value"""
        pad = ' ' * ind
        if not (isinstance(st, ast.AugAssign) and isinstance(st.target, ast.Name) and st.target.id == acc and isinstance(st.op, (ast.Add, ast.Sub))):
            tr.err(st, '`%s += ...` expected' % acc)
        v = st.value
        if not (isinstance(v, ast.BinOp) and isinstance(v.op, ast.Mult) and isinstance(v.left, ast.Subscript)
                and ast.unparse(v.left) == 'Phi[%s]' % env['__j']):
            tr.err(st, '`Phi[j] * <evaluation>` expected')
        e = tr.expr(v.right, env)
        sym = '+' if isinstance(st.op, ast.Add) else '-'
        lines = [pad + 'do', pad + '  let c_Phi ← pyIndex Phi %s   -- Phi[j]' % env['__j']]
        if e[1] == 'orat':
            lines.append(pad + '  let v ← pyNumber %s   -- `number * None` raises' % e[0])
            lines.append(pad + '  pure (%s %s c_Phi * v)' % (acc, sym))
        elif e[1] == 'rat':
            lines.append(pad + '  pure (%s %s c_Phi * %s)' % (acc, sym, e[0]))
        else:
            tr.err(st, 'evaluation of type %s' % e[1])
        stats.bump('accumulations')
        return lines

    def inner_body(stmts, env, acc, ind):
        pad = ' ' * ind
        if not stmts:
            return [pad + 'pure %s' % acc]
        st, rest = stmts[0], stmts[1:]
        if isinstance(st, ast.If) and not st.orelse and len(st.body) == 1 and isinstance(st.body[0], ast.Continue):
            stats.bump('skip_rules')
            return [pad + 'if %s then pure %s   -- continue' % (cond(st.test, env), acc), pad + 'else'] + inner_body(rest, env, acc, ind + 2)
        if isinstance(st, ast.If) and st.orelse and not rest and len(st.body) == 1 and len(st.orelse) == 1:
            stats.bump('branches')
            return ([pad + 'if %s then' % cond(st.test, env)] + accumulate(st.body[0], env, acc, ind + 2) + [pad + 'else'] +
                    accumulate(st.orelse[0], env, acc, ind + 2))
        if isinstance(st, ast.AugAssign) and not rest:
            return accumulate(st, env, acc, ind)
        tr.err(st, 'unsupported statement in the loop over the trial elements')

    acc_names = {}
    for st in loop.body:
        text = ast.unparse(st)
        if isinstance(st, ast.Assign) and len(st.targets) == 1 and isinstance(st.targets[0], ast.Name) and text.endswith('= 0'):
            nm = lean_name(tr, st, st.targets[0].id)
            out.append('  let %s := (0 : Rat)' % nm)
            acc_names[nm] = True
            env[nm] = (nm, 'rat')
        elif isinstance(st, ast.For):
            j, ev, lst = panels._enumerate_loop(tr, st)
            if env.get(lst, (0, 0))[1] != 'elems':
                tr.err(st, 'loop over the trial elements expected')
            accs = [n.target.id for n in ast.walk(st) if isinstance(n, ast.AugAssign) and isinstance(n.target, ast.Name)]
            if not accs or len(set(accs)) != 1 or accs[0] not in acc_names:
                tr.err(st, 'the loop must accumulate into one variable initialised to 0')
            acc = accs[0]
            env2 = dict(env)
            env2[ev] = (ev, 'elem')
            env2['__j'] = j
            out.append('  let %s ← enumFoldM (fun %s %s %s =>' % (acc, j, ev, acc))
            out += inner_body(list(st.body), env2, acc, 6)
            out.append('    ) %s 0 %s' % (lst, acc))
        elif isinstance(st, ast.Assign) and ast.unparse(st.targets[0]) == 'result[i]':
            v = tr.rat(st.value, env)
            out.append('  let r := %s   -- result[i] = %s' % (v, ast.unparse(st.value)))
        elif isinstance(st, ast.If) and not st.orelse and len(st.body) == 1 and isinstance(st.test, ast.Name) \
                and env.get(st.test.id, (0, 0))[1] == 'optffun':
            s = st.body[0]
            if not (isinstance(s, ast.AugAssign) and ast.unparse(s.target) == 'result[i]' and isinstance(s.op, (ast.Add, ast.Sub))):
                tr.err(st, '`result[i] += / -= ...` expected')
            f = st.test.id
            env2 = dict(env)
            env2[f] = ('f_' + f, 'ffun')
            v = tr.rat(s.value, env2)
            sym = '+' if isinstance(s.op, ast.Add) else '-'
            out.append('  let r := (match %s with | some f_%s => r %s %s | none => r)   -- if %s: %s' % (f, f, sym, v, f, ast.unparse(s)))
            stats.bump('rhs_terms')
        else:
            tr.err(st, 'unsupported statement in the loop over the points (%s)' % text[:60])
    out.append('  pure r')
    sig = ('(gamma_len : Rat) (glue_space : Bool) (S : Fns) (log : Rule1) (gs : List Piece)\n'
           '    (elems : List Elem) (Phi : List Rat) (M0u0 g : Option (Rat → Rat × Rat → Rat)) (SL_exact_eval : Bool)')
    lines = ['/-- body of the loop `for i, (t, x_hat, x) in enumerate(zip(t, x_hat, x.T))` of the closure returned by',
             '`ErrorEstimator.residual(elems, Phi, SL, M0u0, g, SL_exact_eval)`: the value stored in `result[i]`;',
             '`SL.evaluate` / `SL.evaluate_exact` are the generated functions; `gamma` = the piece handed to the closure -/',
             'def residual_point ' + sig,
             '    (gamma : Nat) (t x_hat : Rat) (x : Rat × Rat) : Except String Rat := do'] + out
    lines += ['',
              '/-- the closure `residual(t, x_hat, gamma)`: `assert len(t) == len(x_hat)`, `x = gamma(x_hat)`, `result = np.zeros(len(t))`,',
              'the loop over `zip(t, x_hat, x.T)`, `return result` (`SL._init_elems(elems)` of the enclosing method sets the',
              'pre-evaluated points `init_log_scheme_y`, which are functions of the element here) -/',
              'def residual ' + sig,
              '    (t x_hat : List Rat) (gamma : Nat) : Except String (List Rat) :=',
              '  if (¬ (t.length = x_hat.length)) then .error "assert:len"',
              '  else',
              '    let x := (x_hat.map (fun y => (pieceOf gs gamma).at y))',
              '    (zip3 t x_hat x).mapM fun p =>',
              '      residual_point gamma_len glue_space S log gs elems Phi M0u0 g SL_exact_eval gamma p.1 p.2.1 p.2.2']
    return lines


# ---- example.py: the assembly slice -------------------------------------------------------------------------
def gen_slice(repo, stats):
    import warnings
    text = open(os.path.join(repo, EXAMPLE_FILE)).read()
    with warnings.catch_warnings():
        warnings.simplefilter('ignore')
        tree = ast.parse(text)
    loops = [n for n in ast.walk(tree) if isinstance(n, ast.For) and isinstance(n.target, ast.Name) and n.target.id == 'k'
             and ast.unparse(n.iter).startswith('range(')]
    if len(loops) != 1:
        raise TranslationError('example.py: the adaptive loop `for k in range(...)` not found exactly once')
    WANT = {'elems', 'N', 'mat', 'rhs', 'Phi'}

    def targets(st):
        if isinstance(st, ast.Assign):
            return {t.id for t in st.targets if isinstance(t, ast.Name)}
        if isinstance(st, ast.AugAssign) and isinstance(st.target, ast.Name):
            return {st.target.id}
        if isinstance(st, ast.If):
            out = set()
            for s in list(st.body) + list(st.orelse):
                out |= targets(s)
            return out
        return set()
    picked = [st for st in loops[0].body if targets(st) & WANT]
    # no other statement of the loop may write these names (before Phi is computed)
    for n in ast.walk(loops[0]):
        if isinstance(n, (ast.Assign, ast.AugAssign)) and targets(n) & WANT and not any(n is p or n in ast.walk(p) for p in picked):
            raise TranslationError('example.py: %s writes an assembly variable outside the slice' % ast.unparse(n)[:60])
    out = []
    seen = []

    def err(st, msg):
        raise TranslationError('example.py line %d: %s: `%s`' % (st.lineno, msg, ast.unparse(st)[:100]))
    for st in picked:
        text = ast.unparse(st)
        tg = sorted(targets(st))
        if text == 'elems = list(mesh.leaf_elements)':
            out.append('  -- elems = list(mesh.leaf_elements): the parameter `elems`')
        elif text == 'N = len(elems)':
            out.append('  let N := elems.length')
        elif tg == ['mat'] and isinstance(st, ast.Assign):
            v = st.value
            if not (isinstance(v, ast.Call) and ast.unparse(v.func) == 'SL.bilform_matrix' and [ast.unparse(a) for a in v.args] == ['elems', 'elems']
                    and [(k.arg, ast.unparse(k.value)) for k in v.keywords] in ([('use_mp', 'True')], [('use_mp', 'False')], [])):
                err(st, 'mat = SL.bilform_matrix(elems, elems, use_mp=...) expected')
            mp = 'true' if v.keywords and ast.unparse(v.keywords[0].value) == 'True' else 'false'
            out.append('  let mat ← SL_bilform_matrix (some elems) (some elems) %s' % mp)
        elif text == 'rhs = np.zeros(N)':
            if 'N' not in seen:
                err(st, 'N is not defined')
            out.append('  let rhs : List Rat := zerosVec N')
        elif isinstance(st, ast.If) and isinstance(st.test, ast.Name) and st.test.id in ('M0', 'g_linform') and not st.orelse and len(st.body) == 1:
            s = st.body[0]
            obj = st.test.id
            if isinstance(s, ast.Assign):
                v, how = s.value, 'set'
            elif isinstance(s, ast.AugAssign) and isinstance(s.op, (ast.Add, ast.Sub)):
                v, how = s.value, '+' if isinstance(s.op, ast.Add) else '-'
            else:
                err(st, 'unsupported statement')
            if targets(s) != {'rhs'}:
                err(st, 'only rhs may be written here')
            neg = False
            if isinstance(v, ast.UnaryOp) and isinstance(v.op, ast.USub):
                neg, v = True, v.operand
            if obj == 'M0':
                ok = (isinstance(v, ast.Call) and ast.unparse(v.func) == 'M0.linform_vector' and not v.args and
                      sorted((k.arg, ast.unparse(k.value)) for k in v.keywords) in ([('elems', 'elems'), ('use_mp', 'True')],
                                                                                  [('elems', 'elems'), ('use_mp', 'False')], [('elems', 'elems')]))
                if not ok:
                    err(st, 'M0.linform_vector(elems=elems, use_mp=...) expected')
                mp = 'true' if any(k.arg == 'use_mp' and ast.unparse(k.value) == 'True' for k in v.keywords) else 'false'
                callee = 'M0_linform_vector elems %s' % mp
                binder = 'M0_linform_vector'
            else:
                if not (isinstance(v, ast.Call) and ast.unparse(v.func) == 'g_linform' and [ast.unparse(a) for a in v.args] == ['elems'] and not v.keywords):
                    err(st, 'g_linform(elems) expected')
                callee = 'g_linform elems'
                binder = 'g_linform'
            val = '(v.map (fun u => (-u)))' if neg else 'v'
            if how == 'set':
                upd = 'pure %s' % val
            elif how == '+':
                upd = 'npIAdd rhs %s' % val
            else:
                upd = 'npIAdd rhs (%s.map (fun u => (-u)))' % val
            out.append('  let rhs ← (match %s with   -- if %s: %s' % (obj, obj, ast.unparse(s)))
            out.append('    | some %s => do' % binder)
            out.append('      let v ← %s' % callee)
            out.append('      %s' % upd)
            out.append('    | none => pure rhs)')
            stats.bump('rhs_terms')
        elif tg == ['Phi'] and text == 'Phi = np.linalg.solve(mat, rhs)':
            out.append('  let Phi ← solve mat rhs')
        else:
            err(st, 'unsupported statement of the assembly slice')
        seen += tg
    if [s for s in seen if s in WANT] != ['elems', 'N', 'mat', 'rhs', 'rhs', 'rhs', 'Phi']:
        raise TranslationError('example.py: assembly statements in unexpected order: %s' % seen)
    out.append('  pure (mat, rhs, Phi)')
    stats.bump('slice_statements', len(picked))
    return (['/-- the statements of `example.py` (loop `for k in range(100)`) that define `elems`, `N`, `mat`, `rhs`, `Phi`, in source',
             'order. `M0` / `g_linform` are `None` or an object (`Option`); `SL_bilform_matrix a b mp` = `SL.bilform_matrix(a, b, use_mp=mp)`,',
             '`M0_linform_vector elems mp` = `M0.linform_vector(elems=elems, use_mp=mp)`, `solve` = `np.linalg.solve` -/',
             'def assembly_slice {E : Type} (SL_bilform_matrix : Option (List E) → Option (List E) → Bool → Except String (Mat Rat))',
             '    (M0 : Option (List E → Bool → Except String (List Rat))) (g_linform : Option (List E → Except String (List Rat)))',
             '    (solve : Mat Rat → List Rat → Except String (List Rat)) (elems : List E) :',
             '    Except String (Mat Rat × List Rat × List Rat) := do'] + out), [ast.unparse(s) for s in picked]


# ---------------------------------------------------------------------------------------------------------
PRELUDE = '''/-! ### Python / NumPy semantics used by the translated bodies (trusted prelude, see the translator's docstring) -/
/-- `for j, e in enumerate(es, start=j): acc = step j e acc` where `step` may raise -/
def enumFoldM {α β : Type} (step : Nat → α → β → Except String β) : List α → Nat → β → Except String β
  | [], _, acc => pure acc
  | e :: es, j, acc => do
    let acc ← step j e acc
    enumFoldM step es (j + 1) acc
/-- `l[j]` for `j ≥ 0` -/
def pyIndex (l : List Rat) (j : Nat) : Except String Rat :=
  match l[j]? with
  | some v => pure v
  | none => .error "raise:IndexError"
/-- a value used as a number: `None` raises `TypeError` in arithmetic -/
def pyNumber : Option Rat → Except String Rat
  | some v => pure v
  | none => .error "raise:TypeError"
/-- `zip(a, b, c)` -/
def zip3 {α β γ : Type} (a : List α) (b : List β) (c : List γ) : List (α × β × γ) := a.zip (b.zip c)
/-- `a += b` on 1-D arrays: equal lengths, or `b` of length 1 (broadcast); anything else raises `ValueError` -/
def npIAdd (a b : List Rat) : Except String (List Rat) :=
  if a.length = b.length then pure (List.zipWith (fun u v => u + v) a b)
  else match b with
    | [c] => pure (a.map fun u => u + c)
    | _ => .error "raise:ValueError"
'''


def generate_text(repo):
    src = Source(repo)
    init = Init(src)
    consts, stats = Consts(), Stats()
    # the operator parameters referred to by the emitted signatures must be what __init__ binds
    init.param('gamma_len'), init.param('glue_space'), init.param('pw_exact')
    ev_exact = gen_evaluate_exact(src, init, consts, stats)
    pot = gen_potential(src, init, consts, stats)
    vecs = []
    vecs += gen_vector(src, init, consts, stats, 'evaluate_vector', [('t', 'rat'), ('x_hat', 'rat')],
                       'def evaluate_vector %s (leaf_elements : List Elem)\n    (gamma_eval : Rat → Rat × Rat) (t x_hat : Rat) : List Rat :=' % SL_ARGS,
                       '`SingleLayerOperator.evaluate_vector(t, x_hat)`; `leaf_elements` = `list(self.mesh.leaf_elements)`, `gamma_eval` = `self.mesh.gamma_space.eval`') + ['']
    if 'potential_vector' in src.methods:
        vecs += gen_vector(src, init, consts, stats, 'potential_vector', [('t', 'rat'), ('x', 'vec')],
                           'def potential_vector (S : Fns) (gauss : Rule1) (gs : List Piece) (leaf_elements : List Elem) (t : Rat) (x : Rat × Rat) : List Rat :=',
                           '`SingleLayerOperator.potential_vector(t, x)`') + ['']
    vecs += gen_vector(src, init, consts, stats, 'rhs_vector', [('f', 'ffun'), ('gauss_order', 'nat', '23')],
                       'def rhs_vector (gaussOf : Nat → Rule1) (gs : List Piece) (leaf_elements : List Elem)\n    (f : Rat → Rat × Rat → Rat) (gauss_order : Nat := 23) : List Rat :=',
                       '`SingleLayerOperator.rhs_vector(f, gauss_order=23)`; `gaussOf n` = `gauss_quadrature_scheme(n)`, `f t p` = `f(t, p)` for a (2,1) point `p`') + ['']
    worker = gen_worker(src, init, consts, stats)
    bm = gen_bilform_matrix(src, init, consts, stats)
    resid = gen_residual(repo, src, init, consts, stats)
    slc, slice_text = gen_slice(repo, stats)
    if consts.defs:
        raise TranslationError('unexpected float literals in the translated bodies: %s' % sorted(consts.defs))
    out = ['/- GENERATED by translate/slrest.py from src/single_layer.py, src/error_estimator.py, example.py -- do not edit. -/',
           'import Stbem.Gen.Panels',
           'import Stbem.Model.Assembly',
           'set_option linter.unusedVariables false',
           'namespace Stbem.Gen.SLRest',
           'open Stbem.Quad Stbem.Formulas.Q Stbem.SL',
           'open Stbem.Assembly hiding Elem',
           'open Stbem.Gen.Panels (vsub vsq)',
           'open Stbem.Gen',
           '', PRELUDE]
    out += ev_exact + [''] + pot + [''] + vecs + worker + [''] + bm + [''] + resid + [''] + slc
    out += ['', 'end Stbem.Gen.SLRest', '']
    notes = dict(stats.n)
    notes['slice'] = slice_text
    return '\n'.join(out), notes


def generate(repo, gen_dir, write):
    text, stats = generate_text(repo)
    write(os.path.join(gen_dir, 'SLRest.lean'), text)
    return stats


if __name__ == '__main__':
    sys.path.insert(0, os.path.join(os.path.dirname(os.path.abspath(__file__)), '..'))
    from harness.common import write_if_changed
    gen = os.path.join(os.path.dirname(os.path.abspath(__file__)), '..', 'lean', 'Stbem', 'Gen')
    if len(sys.argv) < 2:
        sys.exit('usage: slrest.py <repo> [--print]')
    if '--print' in sys.argv:
        t, s = generate_text(sys.argv[1])
        print(t)
        print(s, file=sys.stderr)
    else:
        print(generate(sys.argv[1], gen, write_if_changed))
