"""Static types of the Python fragment translated by translate/estimgen.py and their Lean rendering."""
from fractions import Fraction as F


class TranslationError(Exception):
    pass


RAT, NAT, INT, LIT, BOOL, PROP = 'rat', 'nat', 'int', 'lit', 'bool', 'prop'
GAMMA, SL, M0, GFUN, DICT, RES, TIME, NONE = 'gamma', 'sl', 'm0', 'gfun', 'dict', 'res', 'time', 'none'


def TRec(name):
    return ('rec', name)


def TList(t):
    return ('list', t)


def TTuple(*ts):
    return ('tuple', tuple(ts))


def TOpt(t):
    return ('opt', t)


VERTEX, ELEM = TRec('Vertex'), TRec('DummyElement')
VEC, IVEC = TList(RAT), TList(INT)
MAT, IMAT = TList(VEC), TList(IVEC)
ELEMS = TList(ELEM)
ELEMSS = TList(ELEMS)
VERTS = TList(VERTEX)


def is_list(t):
    return isinstance(t, tuple) and t[0] == 'list'


def is_tuple(t):
    return isinstance(t, tuple) and t[0] == 'tuple'


def is_opt(t):
    return isinstance(t, tuple) and t[0] == 'opt'


def is_rec(t):
    return isinstance(t, tuple) and t[0] == 'rec'


def has_unknown(t):
    if t is None:
        return True
    if isinstance(t, tuple) and t[0] in ('list', 'opt'):
        return has_unknown(t[1])
    if is_tuple(t):
        return any(has_unknown(x) for x in t[1])
    return False


def mentions_gamma(t, classes):
    """does the Lean type of `t` carry the parameter Γ"""
    if t in (GAMMA, SL, M0, GFUN):
        return True
    if is_rec(t):
        return classes[t[1]].generic
    if isinstance(t, tuple) and t[0] in ('list', 'opt'):
        return mentions_gamma(t[1], classes)
    if is_tuple(t):
        return any(mentions_gamma(x, classes) for x in t[1])
    return False


def paren(code):
    code = code.strip()
    if all(ch.isalnum() or ch in '_.!?' for ch in code):
        return code
    if code.startswith('(') and _matching(code) == len(code) - 1:
        return code
    if code.startswith('[') and code.endswith(']') and _matching(code, '[', ']') == len(code) - 1:
        return code
    return '(' + code + ')'


def _matching(code, o='(', c=')'):
    depth = 0
    for i, ch in enumerate(code):
        if ch == o:
            depth += 1
        elif ch == c:
            depth -= 1
            if depth == 0:
                return i
    return -1


def lean_type(t, classes):
    if t == RAT:
        return 'Rat'
    if t in (NAT, LIT):
        return 'Nat'
    if t == INT:
        return 'Int'
    if t == BOOL:
        return 'Bool'
    if t == GAMMA:
        return 'Γ'
    if t == SL:
        return 'SingleLayerOperator Γ'
    if t == M0:
        return 'InitialOperator Γ'
    if t == GFUN:
        return 'List (DummyElement Γ) → List Rat'
    if t == DICT:
        return 'List (Nat × Nat)'
    if t == RES:
        return 'ρ'
    if is_rec(t):
        return t[1] + (' Γ' if classes[t[1]].generic else '')
    if is_list(t):
        if t[1] is None:
            raise TranslationError('the element type of a list could not be determined')
        return 'List %s' % paren(lean_type(t[1], classes))
    if is_tuple(t):
        return '(%s)' % ' × '.join(lean_type(x, classes) for x in t[1])
    if is_opt(t):
        return 'Option %s' % paren(lean_type(t[1], classes))
    raise TranslationError('no Lean type for %r' % (t, ))


def lean_rat(q):
    q = F(q)
    if q.denominator == 1:
        return '(%d : Rat)' % q.numerator
    return '((%d : Rat) / %d)' % (q.numerator, q.denominator)


def float_const_name(text):
    s = text.strip().lower().replace('+', '')
    return 'c_' + s.replace('.', 'p').replace('-', 'm')


LEAN_KEYWORDS = {
    'at', 'do', 'then', 'else', 'if', 'fun', 'let', 'have', 'show', 'from', 'end', 'in', 'match', 'with', 'where', 'by', 'open',
    'Type', 'Prop', 'Sort', 'def', 'theorem', 'example', 'namespace', 'section', 'variable', 'universe', 'import', 'return',
    'for', 'unless', 'try', 'catch', 'finally', 'mut', 'this', 'using', 'deriving', 'instance', 'structure', 'class', 'inductive',
    'break', 'continue', 'true', 'false', 'pure', 'throw', 'abbrev', 'macro', 'syntax', 'notation', 'infix', 'prefix', 'postfix',
    'private', 'protected', 'partial', 'mutual', 'attribute', 'export', 'extends', 'heap', 'np', 'self',
}
RUNTIME_NAMES = {
    'assertThat', 'getIdx', 'listSet', 'unpack2', 'unpack3', 'unpack4', 'enumerateFrom', 'enumerate', 'dictOfEnumerate', 'dictGet',
    'optGet', 'pyAbs', 'pyFloat', 'pyMax', 'pyMin', 'npZeros', 'npArrayI', 'npArray', 'npArrayPairs', 'npT', 'npCast', 'npRepeat',
    'npDot', 'npVecVec', 'npMatVec', 'vecMatAux', 'npVecMat', 'npSub', 'npAdd', 'npIAdd', 'npISub', 'NumPyExt', 'List', 'Rat', 'Nat',
    'Int', 'Bool', 'Except', 'String', 'Option', 'Vertex', 'DummyElement', 'SingleLayerOperator', 'InitialOperator',
    'HierarchicalErrorEstimator', 'HH2ErrorEstimator',
}
