"""Expression part of the function translator of translate/estimgen.py (class `ExprMixin`)."""
import ast
from fractions import Fraction as F

from estimgen_types import (BOOL, DICT, ELEM, GAMMA, GFUN, IMAT, INT, IVEC, LIT, M0, MAT, NAT, NONE, PROP, RAT, RES, SL, TIME, VEC,
                            TList, TOpt, TTuple, TranslationError, float_const_name, has_unknown, is_list, is_opt, is_rec,
                            is_tuple, lean_rat, lean_type, paren)

NUM_ORDER = {LIT: 0, NAT: 1, INT: 2, RAT: 3}


class Var:
    def __init__(self, name, typ, decl=None, readonly=False):
        self.name, self.typ, self.decl, self.readonly = name, typ, decl, readonly


def is_pend(t):
    return isinstance(t, tuple) and t[0] == 'pend'


class ExprMixin:
    # ---- helpers ---------------------------------------------------------------------------------------------------
    def err(self, node, msg):
        raise TranslationError('%s line %s: %s: `%s`' % (self.fname, getattr(node, 'lineno', '?'), msg, self.mod.seg(node)[:160]))

    def tmp(self, kind='t'):
        self.n_tmp[kind] = self.n_tmp.get(kind, 0) + 1
        return '%s%d' % (kind, self.n_tmp[kind])

    def emit(self, ind, text):
        self.lines.append(' ' * ind + text)

    def lt(self, t):
        return lean_type(t, self.mod.classes)

    def hoist(self, ind, code, typ, kind='t'):
        """`let tN ← code`; returns the name"""
        n = self.tmp(kind)
        self.emit(ind, 'let %s ← %s' % (n, code))
        self.mod.stats.bump('effects')
        return n

    def lit_code(self, value, want, node):
        if want == RAT:
            return lean_rat(F(value)), RAT
        if want == INT:
            return '(%d : Int)' % value, INT
        if value < 0:
            if want == NAT:
                self.err(node, 'negative number where a natural number is needed')
            return '(%d : Int)' % value, INT
        return str(value), (NAT if want == NAT else LIT)

    def coerce(self, node, code, typ, want):
        if want is None or typ == want:
            return code
        if typ == LIT:
            return self.lit_code(int(code), want, node)[0] if want in (RAT, INT, NAT) else self._bad(node, typ, want)
        if typ == NAT and want == RAT:
            return '((%s : Nat) : Rat)' % code
        if typ == INT and want == RAT:
            return '((%s : Int) : Rat)' % code
        if typ == NAT and want == INT:
            return '((%s : Nat) : Int)' % code
        if typ == IVEC and want == VEC:
            self.mod.stats.bump('int_array_casts')
            return '(npCast %s)' % paren(code)
        if is_opt(want) and typ == want[1]:
            return '(some %s)' % paren(code)
        if is_opt(want) and typ == NONE:
            return 'none'
        if typ == PROP and want == BOOL:
            return '(decide %s)' % paren(code)
        return self._bad(node, typ, want)

    def _bad(self, node, typ, want):
        self.err(node, 'a value of type %s where %s is needed' % (typ, want))

    def resolve_pending(self, node, v, typ):
        """a variable initialised with an integer literal gets its numeric type from its first typed use"""
        if typ == LIT:
            return
        if typ not in (RAT, INT, NAT):
            self.err(node, 'numeric variable `%s` used with a value of type %s' % (v.name, typ))
        value = v.typ[1]
        ind, name = self.lines[v.decl]
        self.lines[v.decl] = ' ' * ind + 'let mut %s : %s := %s' % (name, self.lt(typ), self.lit_code(value, typ, node)[0])
        v.typ, v.decl = typ, None

    # ---- expressions -----------------------------------------------------------------------------------------------
    def expr(self, node, env, ind, want=None):
        """-> (code, type); effectful sub-expressions are hoisted into statements emitted at indentation `ind`"""
        if isinstance(node, ast.Constant):
            v = node.value
            if v is None:
                return ('none', NONE)
            if isinstance(v, bool):
                return ('true' if v else 'false', BOOL)
            if isinstance(v, int):
                return self.lit_code(v, want, node)
            if isinstance(v, float):
                text = self.mod.seg(node)
                name = float_const_name(text)
                fr = F(v)
                old = self.mod.consts.get(name)
                if old is not None and old[0] != fr:
                    self.err(node, 'two float literals with the constant name %s' % name)
                self.mod.consts[name] = (fr, 'binary64 value of the literal `%s`' % text)
                self.mod.stats.bump('float_constants')
                return (name, RAT)
            self.err(node, 'unsupported constant')
        if isinstance(node, ast.UnaryOp) and isinstance(node.op, ast.USub):
            if isinstance(node.operand, ast.Constant) and isinstance(node.operand.value, int) \
                    and not isinstance(node.operand.value, bool):
                return self.lit_code(-node.operand.value, want, node)
            c, t = self.expr(node.operand, env, ind, want)
            if t not in (RAT, INT):
                self.err(node, 'unary minus of a value of type %s' % (t, ))
            return ('(-%s)' % paren(c), t)
        if isinstance(node, ast.Name):
            if node.id in env:
                v = env[node.id]
                if is_pend(v.typ):
                    if want in (RAT, INT, NAT):
                        self.resolve_pending(node, v, want)
                    else:
                        return (v.name, v.typ)
                if v.typ == TIME:
                    self.err(node, 'a time stamp may only be printed')
                return (v.name, v.typ)
            self.err(node, 'unknown name')
        if isinstance(node, ast.Tuple):
            parts = [self.settled(e, env, ind) for e in node.elts]
            return ('(%s)' % ', '.join(p[0] for p in parts), TTuple(*[p[1] for p in parts]))
        if isinstance(node, ast.List):
            return self.list_literal(node, env, ind, want)
        if isinstance(node, ast.Attribute):
            return self.attribute(node, env, ind)
        if isinstance(node, ast.Subscript):
            return self.subscript(node, env, ind)
        if isinstance(node, ast.BinOp):
            return self.binop(node, env, ind, want)
        if isinstance(node, ast.Call):
            return self.call(node, env, ind, want)
        if isinstance(node, ast.ListComp):
            return self.listcomp(node, env, ind)
        if isinstance(node, ast.DictComp):
            return self.dictcomp(node, env, ind)
        if isinstance(node, (ast.Compare, ast.BoolOp)) or (isinstance(node, ast.UnaryOp) and isinstance(node.op, ast.Not)):
            return (self.cond(node, env, ind), PROP)
        self.err(node, 'unsupported expression')

    def settled(self, node, env, ind, want=None):
        """expression whose type must be final (no bare literal / pending numeric)"""
        c, t = self.expr(node, env, ind, want)
        if t == LIT:
            return (c, NAT)
        if is_pend(t):
            self.err(node, 'the numeric type of `%s` is not determined yet' % c)
        return (c, t)

    def pure_expr(self, node, env, want=None):
        n0 = len(self.lines)
        r = self.expr(node, env, 0, want)
        if len(self.lines) != n0:
            self.err(node, 'an operation that can raise inside a lambda / comprehension / short-circuit operand')
        return r

    def list_literal(self, node, env, ind, want):
        if not node.elts:
            return ('[]', TList(None))
        ew = want[1] if is_list(want) else None
        # a table of integer rows becomes a named constant of the generated module
        if all(isinstance(e, ast.List) and e.elts and all(self._is_int_lit(x) for x in e.elts) for e in node.elts) and ew is None:
            rows = [[self._int_lit(x) for x in e.elts] for e in node.elts]
            name = self.mod.table(self.fname, rows, self.mod.seg(node), node.lineno)
            return (name, IMAT)
        if all(self._is_int_lit(x) for x in node.elts) and ew is None:
            return ('[%s]' % ', '.join('(%d : Int)' % self._int_lit(x) for x in node.elts), IVEC)
        parts = [self.settled(e, env, ind, ew) for e in node.elts]
        t0 = parts[0][1]
        if any(p[1] != t0 for p in parts):
            self.err(node, 'list literal with entries of different types')
        self.mod.stats.bump('list_literals')
        return ('[%s]' % ', '.join(p[0] for p in parts), TList(t0))

    @staticmethod
    def _is_int_lit(x):
        if isinstance(x, ast.UnaryOp) and isinstance(x.op, ast.USub):
            x = x.operand
        return isinstance(x, ast.Constant) and isinstance(x.value, int) and not isinstance(x.value, bool)

    @staticmethod
    def _int_lit(x):
        if isinstance(x, ast.UnaryOp):
            return -x.operand.value
        return x.value

    def attribute(self, node, env, ind):
        b = node.value
        if isinstance(b, ast.Name) and b.id == 'self' and self.self_cls is not None:
            if self.in_init is not None:
                if node.attr not in self.in_init:
                    self.err(node, 'attribute read before it is assigned in __init__')
                v = self.in_init[node.attr]
                return (v.name, v.typ)
            for fname, ftyp in self.self_cls.fields:
                if fname == node.attr:
                    self.mod.stats.bump('attribute_reads')
                    return ('self.%s' % fname, ftyp)
            self.err(node, 'unknown attribute of self')
        base = self.settled(b, env, ind)
        if node.attr == 'T' and base[1] in (VEC, IVEC):
            self.mod.stats.bump('numpy_calls')
            return ('(npT %s)' % paren(base[0]), base[1])
        if is_rec(base[1]):
            ci = self.mod.classes[base[1][1]]
            for fname, ftyp in ci.fields:
                if fname == node.attr:
                    if ci.readable is not None and node.attr not in ci.readable and self.reads_input_elems(b, env):
                        self.err(node, 'attribute of an element handed in by the caller other than %s' % sorted(ci.readable))
                    self.mod.stats.bump('attribute_reads')
                    return ('%s.%s' % (paren(base[0]), fname), ftyp)
        self.err(node, 'unsupported attribute')

    def reads_input_elems(self, b, env):
        return isinstance(b, ast.Name) and b.id in env and getattr(env[b.id], 'from_input', False)

    def subscript(self, node, env, ind):
        base = self.settled(node.value, env, ind)
        if base[1] == DICT:
            k = self.settled(node.slice, env, ind)
            if k[1] != ELEM:
                self.err(node, 'dictionary key of type %s' % (k[1], ))
            self.mod.stats.bump('dict_lookups')
            return (self.hoist(ind, 'dictGet %s %s.oid' % (paren(base[0]), paren(k[0])), NAT), NAT)
        if is_tuple(base[1]):
            if not self._is_int_lit(node.slice) or not 0 <= self._int_lit(node.slice) < len(base[1][1]):
                self.err(node, 'tuple index')
            k, n = self._int_lit(node.slice), len(base[1][1])
            proj = '.'.join(['2'] * k + (['1'] if k < n - 1 else []))
            return ('%s.%s' % (paren(base[0]), proj), base[1][1][k])
        if is_list(base[1]):
            if isinstance(node.slice, (ast.Slice, ast.Tuple)):
                self.err(node, 'slices are not supported')
            i = self.expr(node.slice, env, ind, NAT)
            if i[1] not in (NAT, LIT):
                self.err(node, 'index of type %s' % (i[1], ))
            self.mod.stats.bump('index_reads')
            return (self.hoist(ind, 'getIdx %s %s' % (paren(base[0]), paren(i[0])), base[1][1]), base[1][1])
        self.err(node, 'unsupported subscript')

    def numeric(self, node, env, ind, want):
        c, t = self.expr(node, env, ind, want)
        return c, t

    def binop(self, node, env, ind, want):
        op = node.op
        if isinstance(op, ast.MatMult):
            return self.matmul(node, env, ind)
        if isinstance(op, ast.Pow):
            if not (self._is_int_lit(node.right) and self._int_lit(node.right) >= 0):
                self.err(node, 'only literal exponents are supported')
            b = self.settled(node.left, env, ind, want if want in (RAT, INT) else None)
            if b[1] not in (RAT, INT, NAT):
                self.err(node, 'power of a value of type %s' % (b[1], ))
            return ('%s ^ %d' % (paren(b[0]), self._int_lit(node.right)), b[1])
        sym = {ast.Add: '+', ast.Sub: '-', ast.Mult: '*', ast.Div: '/'}.get(type(op))
        if sym is None:
            self.err(node, 'unsupported operator')
        w = RAT if sym == '/' else (want if want in (RAT, INT) else None)
        a = self.expr(node.left, env, ind, w)
        b = self.expr(node.right, env, ind, w if w else (a[1] if a[1] in (RAT, INT) else None))
        if a[1] in (LIT, ) + tuple() and b[1] in (RAT, INT):
            a = (self.coerce(node.left, a[0], a[1], b[1]), b[1])
        # pending numeric variables take the type of the other operand
        for me, other, nd in ((a, b, node.left), (b, a, node.right)):
            if is_pend(me[1]) and not is_pend(other[1]) and other[1] in (RAT, INT, NAT):
                self.resolve_pending(nd, env[nd.id], other[1])
        a = (a[0], env[node.left.id].typ) if is_pend(a[1]) and not is_pend(env[node.left.id].typ) else a
        b = (b[0], env[node.right.id].typ) if is_pend(b[1]) and not is_pend(env[node.right.id].typ) else b
        if is_pend(a[1]) or is_pend(b[1]):
            self.err(node, 'arithmetic on numeric variables whose type is not determined yet')
        if a[1] in (VEC, IVEC) and b[1] in (VEC, IVEC) and sym in '+-':
            fn = {'+': 'npAdd', '-': 'npSub'}[sym]
            ca, cb = self.coerce(node.left, a[0], a[1], VEC), self.coerce(node.right, b[0], b[1], VEC)
            self.mod.stats.bump('array_ops')
            return (self.hoist(ind, '%s %s %s' % (fn, paren(ca), paren(cb)), VEC), VEC)
        if a[1] not in NUM_ORDER or b[1] not in NUM_ORDER:
            self.err(node, 'operator %s on values of types %s, %s' % (sym, a[1], b[1]))
        t = max(a[1], b[1], key=lambda x: NUM_ORDER[x])
        if sym == '/':
            t = RAT
        if t == LIT:
            t = NAT
        if sym == '-' and t == NAT:
            self.err(node, 'subtraction of natural numbers')
        ca, cb = self.coerce(node.left, a[0], a[1], t), self.coerce(node.right, b[0], b[1], t)
        self.mod.stats.bump('arithmetic')
        return ('%s %s %s' % (paren(ca), sym, paren(cb)), t)

    def matmul(self, node, env, ind):
        a = self.settled(node.left, env, ind)
        b = self.settled(node.right, env, ind)
        self.mod.stats.bump('matmul')
        if a[1] == MAT and b[1] in (VEC, IVEC):
            return (self.hoist(ind, 'npMatVec %s %s' % (paren(a[0]), paren(self.coerce(node.right, b[0], b[1], VEC))), VEC), VEC)
        if a[1] in (VEC, IVEC) and b[1] == MAT:
            return (self.hoist(ind, 'npVecMat %s %s' % (paren(self.coerce(node.left, a[0], a[1], VEC)), paren(b[0])), VEC), VEC)
        if a[1] in (VEC, IVEC) and b[1] in (VEC, IVEC):
            return (self.hoist(ind, 'npVecVec %s %s' % (paren(self.coerce(node.left, a[0], a[1], VEC)),
                                                       paren(self.coerce(node.right, b[0], b[1], VEC))), RAT), RAT)
        self.err(node, '`@` on values of types %s, %s' % (a[1], b[1]))

    # ---- conditions ------------------------------------------------------------------------------------------------
    def cond(self, node, env, ind):
        """-> Lean proposition (decidable)"""
        if isinstance(node, ast.BoolOp):
            parts = [self.cond(node.values[0], env, ind)]
            for v in node.values[1:]:
                n0 = len(self.lines)
                parts.append(self.cond(v, env, ind))
                if len(self.lines) != n0:
                    self.err(v, 'an operation that can raise in a short-circuit operand')
            return '(%s)' % (' ∧ ' if isinstance(node.op, ast.And) else ' ∨ ').join(parts)
        if isinstance(node, ast.UnaryOp) and isinstance(node.op, ast.Not):
            return '(¬ %s)' % self.cond(node.operand, env, ind)
        if isinstance(node, ast.Compare):
            if len(node.ops) != 1:
                self.err(node, 'chained comparison')
            sym = {ast.Lt: '<', ast.LtE: '≤', ast.Gt: '>', ast.GtE: '≥', ast.Eq: '=', ast.NotEq: '≠'}.get(type(node.ops[0]))
            if sym is None:
                self.err(node, 'unsupported comparison')
            a = self.expr(node.left, env, ind)
            b = self.expr(node.comparators[0], env, ind, a[1] if a[1] in (RAT, INT, NAT) else None)
            if a[1] == LIT and b[1] in (RAT, INT, NAT):
                a = (self.coerce(node.left, a[0], a[1], b[1]), b[1])
            for me, other, nd in ((a, b, node.left), (b, a, node.comparators[0])):
                if is_pend(me[1]) and other[1] in (RAT, INT, NAT):
                    self.resolve_pending(nd, env[nd.id], other[1])
            if a[1] not in NUM_ORDER or b[1] not in NUM_ORDER:
                self.err(node, 'comparison of values of types %s, %s' % (a[1], b[1]))
            t = max(a[1], b[1], key=lambda x: NUM_ORDER[x])
            t = NAT if t == LIT else t
            self.mod.stats.bump('comparisons')
            return '(%s %s %s)' % (self.coerce(node.left, a[0], a[1], t), sym, self.coerce(node.comparators[0], b[0], b[1], t))
        c, t = self.settled(node, env, ind)
        if t == BOOL:
            return '(%s = true)' % c
        if t == PROP:
            return c
        if is_opt(t):
            # truth value of an attribute that is `None` or an object without `__bool__` / `__len__`
            self.mod.stats.bump('none_tests')
            return '(%s.isSome = true)' % paren(c)
        self.err(node, 'truth value of a value of type %s' % (t, ))
