#!/venv/bin/python
"""Translator: closed-form formula code of /repo (ast) -> Lean definitions over two carriers.

For every listed Python function one Lean function is emitted twice from the same intermediate term:
  * `Stbem/Gen/FormulasQ.lean`  over `Rat`  (computable, Mathlib-free, linked into the driver) and
  * `Stbem/Gen/FormulasR.lean`  over `ℝ`    (noncomputable, used by the theorems).
Special functions (`exp, sqrt, erf, erfc, expi, exp1, z**(3/2)`) and the module constants (`pi, FPI_INV, PI_SQRT,
HPI_INV`) are fields of a structure `Fns`, i.e. *parameters*: over `Rat` the harness supplies rational stand-ins
(black-box identity testing against the real Python code), over `ℝ` the theorems assume their laws.

Supported Python fragment: names, numeric constants, + - * / **, unary minus, comparisons, `if/return` chains,
`if` blocks that (aug)assign, local assignments, closures returned as `lambda`/inner `def` (their parameters are
appended to the outer ones), `fsum([...])`, `abs/np.abs`, `np.sign`, `min`, `max`, `np.sum(x**2, axis=0)` (the squared
norm of the vector argument becomes the scalar parameter `<name>_sq`), calls of other translated functions.
Anything else raises TranslationError (= a broken obligation of the check, never silently skipped).
"""
import ast
import os
import sys


class TranslationError(Exception):
    pass


SPECIAL = {'exp': 'exp', 'sqrt': 'sqrt', 'erf': 'erf', 'erfc': 'erfc', 'expi': 'ei', 'exp1': 'e1'}
CONSTS = {'pi': 'pi', 'FPI_INV': 'fpiInv', 'PI_SQRT': 'piSqrt', 'HPI_INV': 'hpiInv'}

# (file, function name, lean name, kind)   kind: 'fun' plain function, 'closure' function returning a function
TARGETS = [
    ('src/single_layer.py', 'g', 'sl_g', 'closure'),
    ('src/single_layer.py', 'f', 'sl_f', 'closure'),
    ('src/single_layer.py', 'time_integrated_kernel', 'sl_tik', 'closure'),
    ('src/single_layer.py', 'double_time_integrated_kernel', 'sl_dtk', 'closure'),
    ('src/single_layer_exact.py', 'gint_1', 'gint_1', 'fun'),
    ('src/single_layer_exact.py', 'gint_2', 'gint_2', 'fun'),
    ('src/single_layer_exact.py', 'fint_1', 'fint_1', 'fun'),
    ('src/single_layer_exact.py', 'fint_2', 'fint_2', 'fun'),
    ('src/single_layer_exact.py', 'fint_3', 'fint_3', 'fun'),
    ('src/single_layer_exact.py', 'fint_4', 'fint_4', 'fun'),
    ('src/single_layer_exact.py', 'spacetime_integrated_kernel_1', 'stik_1', 'fun'),
    ('src/single_layer_exact.py', 'spacetime_integrated_kernel_2', 'stik_2', 'fun'),
    ('src/single_layer_exact.py', 'spacetime_integrated_kernel_3', 'stik_3', 'fun'),
    ('src/single_layer_exact.py', 'spacetime_integrated_kernel_4', 'stik_4', 'fun'),
    ('src/single_layer_exact.py', 'spacetime_evaluated_1', 'steval_1', 'fun'),
    ('src/single_layer_exact.py', 'spacetime_evaluated_2', 'steval_2', 'fun'),
    ('src/initial_potential.py', 'time_integrated_kernel', 'ip_tik', 'closure'),
]


# ---------------------------------------------------------------------------------------------------------
# intermediate terms: tuples
#   ('num', p, q) | ('var', name) | ('const', field) | ('op', '+', a, b) | ('neg', a) | ('pow', a, n) |
#   ('call', field, a) | ('app', leanfun, [args]) | ('ite', cond, a, b) | ('cmp', op, a, b) | ('abs', a) | ('sign', a)
#   ('min', a, b) | ('max', a, b) | ('let', name, value, body)
class Ctx:
    def __init__(self, src, known, sqvars):
        self.src, self.known, self.sqvars = src, known, sqvars
        self.asserts = []


def num_of_const(node, src):
    from fractions import Fraction
    seg = ast.get_source_segment(src, node)
    v = node.value
    if isinstance(v, bool) or not isinstance(v, (int, float)):
        raise TranslationError('unsupported constant %r' % (v, ))
    if isinstance(v, int):
        return ('num', v, 1)
    try:
        f = Fraction(seg.replace('_', ''))
    except Exception:
        f = Fraction(v)
    return ('num', f.numerator, f.denominator)


def static_fraction(node):
    """Evaluates a constant numeric expression like 3 / 2 exactly, or returns None."""
    from fractions import Fraction
    if isinstance(node, ast.Constant) and isinstance(node.value, (int, float)) and not isinstance(node.value, bool):
        return Fraction(node.value)
    if isinstance(node, ast.UnaryOp) and isinstance(node.op, ast.USub):
        v = static_fraction(node.operand)
        return None if v is None else -v
    if isinstance(node, ast.BinOp):
        a, b = static_fraction(node.left), static_fraction(node.right)
        if a is None or b is None:
            return None
        if isinstance(node.op, ast.Add):
            return a + b
        if isinstance(node.op, ast.Sub):
            return a - b
        if isinstance(node.op, ast.Mult):
            return a * b
        if isinstance(node.op, ast.Div) and b != 0:
            return a / b
    return None


def call_name(node):
    f = node.func
    if isinstance(f, ast.Name):
        return f.id
    if isinstance(f, ast.Attribute) and isinstance(f.value, ast.Name) and f.value.id in ('np', 'math', 'numpy'):
        return f.attr
    raise TranslationError('unsupported call target %s' % ast.dump(f))


def expr(node, env, ctx):
    from fractions import Fraction
    # extension hook (used by translate/problemdefs.py): a context may translate further node kinds itself; it
    # returns None for everything it does not handle.  Contexts without `ext` behave exactly as before.
    ext = getattr(ctx, 'ext', None)
    if ext is not None:
        r = ext(node, env, ctx)
        if r is not None:
            return r
    if isinstance(node, ast.Constant):
        return num_of_const(node, ctx.src)
    if isinstance(node, ast.Name):
        if node.id in env:
            return env[node.id]
        if node.id in CONSTS:
            return ('const', CONSTS[node.id])
        raise TranslationError('unknown name %s' % node.id)
    if isinstance(node, ast.Attribute) and isinstance(node.value, ast.Name) and node.value.id in ('np', 'math') \
            and node.attr == 'pi':
        return ('const', 'pi')
    if isinstance(node, ast.UnaryOp):
        if isinstance(node.op, ast.USub):
            return ('neg', expr(node.operand, env, ctx))
        if isinstance(node.op, ast.UAdd):
            return expr(node.operand, env, ctx)
        raise TranslationError('unsupported unary operator')
    if isinstance(node, ast.BinOp):
        if isinstance(node.op, ast.Pow):
            e = static_fraction(node.right)
            base = expr(node.left, env, ctx)
            if e is None:
                raise TranslationError('non-constant exponent in %s' % ast.get_source_segment(ctx.src, node))
            if e.denominator == 1 and e >= 0:
                return ('pow', base, int(e))
            if e == -1:
                return ('op', '/', ('num', 1, 1), base)
            if e == Fraction(3, 2):
                return ('call', 'pow32', base)
            raise TranslationError('unsupported exponent %s' % e)
        ops = {ast.Add: '+', ast.Sub: '-', ast.Mult: '*', ast.Div: '/'}
        for k, v in ops.items():
            if isinstance(node.op, k):
                return ('op', v, expr(node.left, env, ctx), expr(node.right, env, ctx))
        raise TranslationError('unsupported binary operator %s' % type(node.op).__name__)
    if isinstance(node, ast.Compare):
        if len(node.ops) != 1:
            # a < b < c
            parts, left = [], node.left
            for op, right in zip(node.ops, node.comparators):
                parts.append(cmp1(op, expr(left, env, ctx), expr(right, env, ctx)))
                left = right
            out = parts[0]
            for p in parts[1:]:
                out = ('and', out, p)
            return out
        return cmp1(node.ops[0], expr(node.left, env, ctx), expr(node.comparators[0], env, ctx))
    if isinstance(node, ast.BoolOp):
        vals = [expr(v, env, ctx) for v in node.values]
        out = vals[0]
        for v in vals[1:]:
            out = ('and' if isinstance(node.op, ast.And) else 'or', out, v)
        return out
    if isinstance(node, ast.Call):
        name = call_name(node)
        if name in SPECIAL:
            if len(node.args) != 1:
                raise TranslationError('%s takes one argument' % name)
            return ('call', SPECIAL[name], expr(node.args[0], env, ctx))
        if name == 'abs':
            return ('abs', expr(node.args[0], env, ctx))
        if name == 'sign' and len(node.args) == 1:
            return ('sign', expr(node.args[0], env, ctx))
        if name in ('min', 'max') and len(node.args) == 2:
            return (name, expr(node.args[0], env, ctx), expr(node.args[1], env, ctx))
        if name == 'fsum':
            if len(node.args) != 1 or not isinstance(node.args[0], ast.List):
                raise TranslationError('fsum of a non-literal list')
            terms = [expr(e, env, ctx) for e in node.args[0].elts]
            out = terms[0]
            for t in terms[1:]:
                out = ('op', '+', out, t)
            return out
        if name == 'sum' and isinstance(node.func, ast.Attribute):
            # np.sum(x**2, axis=0) -> the squared norm parameter of x
            a = node.args[0]
            if (isinstance(a, ast.BinOp) and isinstance(a.op, ast.Pow) and isinstance(a.left, ast.Name) and
                    static_fraction(a.right) == 2 and a.left.id in ctx.sqvars):
                return ('var', ctx.sqvars[a.left.id])
            raise TranslationError('unsupported np.sum argument')
        if name in ctx.known:
            lean, kind = ctx.known[name]
            return ('app', lean, [expr(a, env, ctx) for a in node.args], kind)
        if name in env and env[name][0] == 'closure':
            # call of a local closure value: substitute its argument
            _, lean, cargs, kind = env[name]
            return ('app', lean, cargs + [expr(a, env, ctx) for a in node.args], 'fun')
        raise TranslationError('call of unknown function %s' % name)
    raise TranslationError('unsupported expression %s' % ast.get_source_segment(ctx.src, node))


def cmp1(op, a, b):
    m = {ast.Lt: '<', ast.LtE: '≤', ast.Gt: '>', ast.GtE: '≥', ast.Eq: '=', ast.NotEq: '≠'}
    for k, v in m.items():
        if isinstance(op, k):
            return ('cmp', v, a, b)
    raise TranslationError('unsupported comparison')


def block(stmts, env, ctx, inner):
    """Translates a statement list that must end in a return on every path; returns a term.

    `inner(lambda_or_def, env)` translates a returned closure."""
    if not stmts:
        raise TranslationError('path without return')
    st, rest = stmts[0], stmts[1:]
    if isinstance(st, ast.Expr) and isinstance(st.value, ast.Constant) and isinstance(st.value.value, str):
        return block(rest, env, ctx, inner)  # docstring
    if isinstance(st, ast.Assert):
        ctx.asserts.append(ast.get_source_segment(ctx.src, st.test))
        return block(rest, env, ctx, inner)
    if isinstance(st, ast.Return):
        if st.value is None:
            raise TranslationError('bare return')
        if isinstance(st.value, (ast.Lambda, )) or (isinstance(st.value, ast.Name) and env.get(st.value.id, (None, ))[0] == 'def'):
            return inner(st.value, env)
        if isinstance(st.value, ast.Name) and st.value.id == 'noop':
            return ('num', 0, 1)
        return expr(st.value, env, ctx)
    if isinstance(st, ast.FunctionDef):
        env2 = dict(env)
        env2[st.name] = ('def', st)
        return block(rest, env2, ctx, inner)
    if isinstance(st, ast.Assign):
        if len(st.targets) != 1 or not isinstance(st.targets[0], ast.Name):
            raise TranslationError('unsupported assignment target')
        name = st.targets[0].id
        if isinstance(st.value, ast.Call) and call_name(st.value) in ctx.known and ctx.known[call_name(st.value)][1] == 'closure':
            lean, kind = ctx.known[call_name(st.value)]
            env2 = dict(env)
            env2[name] = ('closure', lean, [expr(a, env, ctx) for a in st.value.args], kind)
            return block(rest, env2, ctx, inner)
        val = expr(st.value, env, ctx)
        fresh = fresh_name(name, env)
        env2 = dict(env)
        env2[name] = ('var', fresh)
        return ('let', fresh, val, block(rest, env2, ctx, inner))
    if isinstance(st, ast.AugAssign):
        if not isinstance(st.target, ast.Name) or st.target.id not in env:
            raise TranslationError('unsupported augmented assignment')
        op = '+' if isinstance(st.op, ast.Add) else '-' if isinstance(st.op, ast.Sub) else None
        if op is None:
            raise TranslationError('unsupported augmented operator')
        name = st.target.id
        val = ('op', op, env[name], expr(st.value, env, ctx))
        fresh = fresh_name(name, env)
        env2 = dict(env)
        env2[name] = ('var', fresh)
        return ('let', fresh, val, block(rest, env2, ctx, inner))
    if isinstance(st, ast.If):
        cond = expr(st.test, env, ctx)
        body_returns = ends_in_return(st.body)
        else_returns = ends_in_return(st.orelse) if st.orelse else False
        if body_returns and (else_returns or not st.orelse):
            a = block(st.body, env, ctx, inner)
            b = block(st.orelse if st.orelse else rest, env, ctx, inner)
            if st.orelse and not else_returns:
                raise TranslationError('mixed if/else')
            return ('ite', cond, a, b)
        if not body_returns and not st.orelse:
            # conditional updates of variables: v := if cond then <value after body> else v
            assigned = assigned_names(st.body)
            env_body, lets = run_updates(st.body, env, ctx)
            env2 = dict(env)
            out_lets = []
            for v in assigned:
                if v not in env:
                    continue  # local to the block
                fresh = fresh_name(v, env2)
                out_lets.append((fresh, ('ite', cond, wrap_lets(lets, env_body[v]), env[v])))
                env2[v] = ('var', fresh)
            term = block(rest, env2, ctx, inner)
            for fresh, val in reversed(out_lets):
                term = ('let', fresh, val, term)
            return term
        raise TranslationError('unsupported if statement shape')
    raise TranslationError('unsupported statement %s' % type(st).__name__)


def ends_in_return(stmts):
    if not stmts:
        return False
    last = stmts[-1]
    if isinstance(last, ast.Return):
        return True
    if isinstance(last, ast.If) and last.orelse:
        return ends_in_return(last.body) and ends_in_return(last.orelse)
    return False


def assigned_names(stmts):
    out = []
    for s in stmts:
        if isinstance(s, ast.Assign) and isinstance(s.targets[0], ast.Name):
            if s.targets[0].id not in out:
                out.append(s.targets[0].id)
        elif isinstance(s, ast.AugAssign) and isinstance(s.target, ast.Name):
            if s.target.id not in out:
                out.append(s.target.id)
        else:
            raise TranslationError('unsupported statement in conditional block')
    return out


def run_updates(stmts, env, ctx):
    env = dict(env)
    lets = []
    for s in stmts:
        if isinstance(s, ast.Assign):
            name = s.targets[0].id
            val = expr(s.value, env, ctx)
        else:
            name = s.target.id
            op = '+' if isinstance(s.op, ast.Add) else '-' if isinstance(s.op, ast.Sub) else None
            if op is None or name not in env:
                raise TranslationError('unsupported augmented assignment')
            val = ('op', op, env[name], expr(s.value, env, ctx))
        fresh = fresh_name(name, env)
        lets.append((fresh, val))
        env[name] = ('var', fresh)
    return env, lets


def wrap_lets(lets, term):
    for fresh, val in reversed(lets):
        term = ('let', fresh, val, term)
    return term


_counter = [0]


def fresh_name(name, env):
    _counter[0] += 1
    return '%s_%d' % (name, _counter[0])


# ---------------------------------------------------------------------------------------------------------
def translate_function(fn, src, lean_name, kind, known):
    """Returns (lean_name, params, term, asserts)."""
    _counter[0] = 0
    params = [a.arg for a in fn.args.args]
    env = {p: ('var', p) for p in params}
    ctx = Ctx(src, known, {})
    extra = []

    def inner(node, env_in):
        # closure: parameters appended; a vector parameter used only through np.sum(x**2, axis=0) becomes x_sq
        if isinstance(node, ast.Lambda):
            cparams, body = [a.arg for a in node.args.args], [ast.Return(value=node.body)]
        else:
            d = env_in[node.id][1]
            cparams, body = [a.arg for a in d.args.args], d.body
        env2 = dict(env_in)
        for p in cparams:
            uses_sq = any(isinstance(n, ast.Call) and isinstance(n.func, ast.Attribute) and n.func.attr == 'sum'
                          for n in ast.walk(ast.Module(body=body, type_ignores=[])))
            if uses_sq and p == cparams[0]:
                ctx.sqvars[p] = p + '_sq'
                if p + '_sq' not in extra:
                    extra.append(p + '_sq')
            else:
                env2[p] = ('var', p)
                if p not in extra:
                    extra.append(p)
        return block(body, env2, ctx, inner)

    term = block(fn.body, env, ctx, inner)
    if kind == 'closure' and not extra:
        raise TranslationError('%s: expected a returned closure' % fn.name)
    return lean_name, params + extra, term, ctx.asserts


def collect(repo):
    out = []
    known = {}
    cache = {}
    for path, fname, lean, kind in TARGETS:
        if path not in cache:
            src = open(os.path.join(repo, path)).read()
            cache[path] = (src, ast.parse(src))
        src, tree = cache[path]
        fns = [n for n in tree.body if isinstance(n, ast.FunctionDef) and n.name == fname]
        if len(fns) != 1:
            raise TranslationError('%s: function %s not found exactly once' % (path, fname))
        # functions of the same file may call each other by their Python names
        local_known = {t[1]: (t[2], t[3]) for t in TARGETS if t[0] == path and t[2] in [o[0] for o in out]}
        out.append(translate_function(fns[0], src, lean, kind, local_known) + (path, fname))
    return out


# ---------------------------------------------------------------------------------------------------------
def lean_num(p, q, carrier):
    s = '(%d : %s)' % (p, carrier) if p >= 0 else '((%d) : %s)' % (p, carrier)
    return s if q == 1 else '(%s / (%d : %s))' % (s, q, carrier)


def show(t, carrier, ident):
    k = t[0]
    if k == 'num':
        return lean_num(t[1], t[2], carrier)
    if k == 'var':
        return ident(t[1])
    if k == 'const':
        return 'S.' + t[1]
    if k == 'op':
        return '(%s %s %s)' % (show(t[2], carrier, ident), t[1], show(t[3], carrier, ident))
    if k == 'neg':
        return '(-%s)' % show(t[1], carrier, ident)
    if k == 'pow':
        return '(%s ^ %d)' % (show(t[1], carrier, ident), t[2])
    if k == 'call':
        return '(S.%s %s)' % (t[1], show(t[2], carrier, ident))
    if k == 'app':
        return '(%s S %s)' % (t[1], ' '.join(show(a, carrier, ident) for a in t[2]))
    if k == 'ite':
        return '(if %s then %s else %s)' % (show(t[1], carrier, ident), show(t[2], carrier, ident), show(t[3], carrier, ident))
    if k == 'cmp':
        return '(%s %s %s)' % (show(t[2], carrier, ident), t[1], show(t[3], carrier, ident))
    if k in ('and', 'or'):
        return '(%s %s %s)' % (show(t[1], carrier, ident), '∧' if k == 'and' else '∨', show(t[2], carrier, ident))
    if k == 'abs':
        return '(absK %s)' % show(t[1], carrier, ident)
    if k == 'sign':
        return '(signK %s)' % show(t[1], carrier, ident)
    if k in ('min', 'max'):
        return '(%sK %s %s)' % (k, show(t[1], carrier, ident), show(t[2], carrier, ident))
    if k == 'let':
        return '(let %s := %s;\n    %s)' % (ident(t[1]), show(t[2], carrier, ident), show(t[3], carrier, ident))
    raise TranslationError('cannot print %r' % (t, ))


RESERVED = {'fun', 'from', 'at', 'end', 'open', 'in', 'then', 'else', 'if', 'let', 'have', 'show', 'by', 'do', 'where',
            'with', 'match', 'def', 'theorem', 'Type', 'Prop', 'Sort'}


def ident(name):
    name = name.replace('__', '_')
    return name + "'" if name in RESERVED else name


HEADER_Q = '''/- GENERATED by translate/formulas.py from the closed-form formula code of /repo -- do not edit. -/
namespace Stbem.Formulas.Q

/-- special functions and module constants as parameters (rational stand-ins in the correspondence run) -/
structure Fns where
  exp : Rat → Rat
  sqrt : Rat → Rat
  erf : Rat → Rat
  erfc : Rat → Rat
  ei : Rat → Rat
  e1 : Rat → Rat
  pow32 : Rat → Rat
  pi : Rat
  fpiInv : Rat
  piSqrt : Rat
  hpiInv : Rat

def absK (x : Rat) : Rat := if x < 0 then -x else x
def signK (x : Rat) : Rat := if x < 0 then -1 else if x = 0 then 0 else 1
def minK (a b : Rat) : Rat := if a ≤ b then a else b
def maxK (a b : Rat) : Rat := if a ≤ b then b else a
'''

HEADER_R = '''/- GENERATED by translate/formulas.py from the closed-form formula code of /repo -- do not edit. -/
import Mathlib.Data.Real.Basic
namespace Stbem.Formulas.R
open Classical

/-- special functions and module constants as parameters (their laws are hypotheses of the theorems) -/
structure Fns where
  exp : ℝ → ℝ
  sqrt : ℝ → ℝ
  erf : ℝ → ℝ
  erfc : ℝ → ℝ
  ei : ℝ → ℝ
  e1 : ℝ → ℝ
  pow32 : ℝ → ℝ
  pi : ℝ
  fpiInv : ℝ
  piSqrt : ℝ
  hpiInv : ℝ

noncomputable def absK (x : ℝ) : ℝ := if x < 0 then -x else x
noncomputable def signK (x : ℝ) : ℝ := if x < 0 then -1 else if x = 0 then 0 else 1
noncomputable def minK (a b : ℝ) : ℝ := if a ≤ b then a else b
noncomputable def maxK (a b : ℝ) : ℝ := if a ≤ b then b else a
'''


def emit(funs):
    q, r = [HEADER_Q], [HEADER_R]
    for lean, params, term, asserts, path, fname in funs:
        doc = '/-- `%s` of `%s`; asserted preconditions of the source: %s -/' % (fname, path, '; '.join('`%s`' % a for a in asserts) or 'none')
        ps = ' '.join(ident(p) for p in params)
        q.append('%s\ndef %s (S : Fns) (%s : Rat) : Rat :=\n  %s\n' % (doc, lean, ps, show(term, 'Rat', ident)))
        r.append('%s\nnoncomputable def %s (S : Fns) (%s : ℝ) : ℝ :=\n  %s\n' % (doc, lean, ps, show(term, 'ℝ', ident)))
    q.append('/-- name, arity of every translated function (for the driver) -/\ndef table : List (String × Nat) := [%s]\n' %
             ', '.join('("%s", %d)' % (f[0], len(f[1])) for f in funs))
    # dispatcher for the driver
    disp = ['def evalByName (S : Fns) (name : String) (args : List Rat) : Option Rat :=', '  match name, args with']
    for lean, params, term, asserts, path, fname in funs:
        vs = ['a%d' % i for i in range(len(params))]
        disp.append('  | "%s", [%s] => some (%s S %s)' % (lean, ', '.join(vs), lean, ' '.join(vs)))
    disp.append('  | _, _ => none\n')
    q.append('\n'.join(disp))
    q.append('end Stbem.Formulas.Q\n')
    r.append('end Stbem.Formulas.R\n')
    return '\n'.join(q), '\n'.join(r)


def generate(repo, gen_dir, write):
    funs = collect(repo)
    q, r = emit(funs)
    write(os.path.join(gen_dir, 'FormulasQ.lean'), q)
    write(os.path.join(gen_dir, 'FormulasR.lean'), r)
    return funs


if __name__ == '__main__':
    sys.path.insert(0, os.path.join(os.path.dirname(os.path.abspath(__file__)), '..'))
    from harness.common import write_if_changed
    gen = os.path.join(os.path.dirname(os.path.abspath(__file__)), '..', 'lean', 'Stbem', 'Gen')
    funs = generate(sys.argv[1] if len(sys.argv) > 1 else '/repo', gen, write_if_changed)
    for f in funs:
        print(f[0], f[1], 'asserts:', f[3])
