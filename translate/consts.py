"""Translator for the structural constants of the two-level estimators (property C20).

Reads, with `ast`, from the source text of /repo:

* src/hierarchical_error_estimator.py
  - `DummyElement.__init__`: which vertices define `time_interval` / `space_interval`;
  - `DummyElement.uniform_refinement`: the definition of the auxiliary vertices (`v01`, `vi`, ...) as affine
    combinations of the parent's vertices and the vertex list of each of the children, in source order.
    With the vertex convention of `src/mesh.py` `Element` (vertices in the order (t0,x0), (t0,x1), (t1,x1),
    (t1,x0)) every child becomes a box (tau0, tau1, xi0, xi1) in the parent's unit coordinates;
  - `HierarchicalErrorEstimator.estimate`: the list of coefficient patterns of the `for k, coefs in
    enumerate([...])` loop, and the tuple appended to `estims` as linear forms in `estim_loc[.]`;
* src/h_h2_error_estimator.py: the call `np.repeat(Phi, <n>)`.

and writes lean/Stbem/Gen/Consts.lean.  Any source shape that is not understood raises `TranslationError`
(reported as a broken obligation by ./check).
"""
import ast
import os
import sys
from fractions import Fraction as F


class TranslationError(Exception):
    pass


def _fail(node, msg):
    raise TranslationError('%s (line %s)' % (msg, getattr(node, 'lineno', '?')))


def _find(body, cls, name):
    for n in body:
        if isinstance(n, cls) and n.name == name:
            return n
    raise TranslationError('%s %s not found' % (cls.__name__, name))


def _num(node):
    """numeric literal (with optional sign) -> Fraction (floats are converted exactly)"""
    if isinstance(node, ast.UnaryOp) and isinstance(node.op, ast.USub):
        return -_num(node.operand)
    if isinstance(node, ast.UnaryOp) and isinstance(node.op, ast.UAdd):
        return _num(node.operand)
    if isinstance(node, ast.Constant) and isinstance(node.value, (int, float)) and not isinstance(node.value, bool):
        return F(node.value)
    _fail(node, 'numeric literal expected')


# ------------------------------------------------------------------------------------------------
# linear forms over named atoms: dict atom -> Fraction
def _lin(node, atom):
    """`atom(node)` returns a hashable key if the node is an atom, else None."""
    k = atom(node)
    if k is not None:
        return {k: F(1)}
    if isinstance(node, ast.BinOp):
        if isinstance(node.op, (ast.Add, ast.Sub)):
            a, b = _lin(node.left, atom), _lin(node.right, atom)
            s = 1 if isinstance(node.op, ast.Add) else -1
            out = dict(a)
            for key, v in b.items():
                out[key] = out.get(key, F(0)) + s * v
            return out
        if isinstance(node.op, ast.Div):
            a, c = _lin(node.left, atom), _num(node.right)
            if c == 0:
                _fail(node, 'division by zero')
            return {key: v / c for key, v in a.items()}
        if isinstance(node.op, ast.Mult):
            try:
                c, a = _num(node.left), _lin(node.right, atom)
            except TranslationError:
                c, a = _num(node.right), _lin(node.left, atom)
            return {key: v * c for key, v in a.items()}
    if isinstance(node, ast.UnaryOp) and isinstance(node.op, ast.USub):
        return {key: -v for key, v in _lin(node.operand, atom).items()}
    _fail(node, 'unsupported expression ' + ast.dump(node)[:80])


# ------------------------------------------------------------------------------------------------
def _interval_indices(init):
    """`self.time_interval = self.vertices[i].t, self.vertices[j].t` etc. -> ((i, j), (k, l))"""
    found = {}
    for st in init.body:
        if not (isinstance(st, ast.Assign) and len(st.targets) == 1):
            continue
        tg = st.targets[0]
        if not (isinstance(tg, ast.Attribute) and isinstance(tg.value, ast.Name) and tg.value.id == 'self'):
            continue
        if tg.attr not in ('time_interval', 'space_interval'):
            continue
        want = 't' if tg.attr == 'time_interval' else 'x'
        if not (isinstance(st.value, ast.Tuple) and len(st.value.elts) == 2):
            _fail(st, '%s is not a pair' % tg.attr)
        idx = []
        for e in st.value.elts:
            ok = (isinstance(e, ast.Attribute) and e.attr == want and isinstance(e.value, ast.Subscript)
                  and isinstance(e.value.value, ast.Attribute) and e.value.value.attr == 'vertices'
                  and isinstance(e.value.value.value, ast.Name) and e.value.value.value.id == 'self'
                  and isinstance(e.value.slice, ast.Constant) and isinstance(e.value.slice.value, int))
            if not ok:
                _fail(st, '%s: expected self.vertices[i].%s' % (tg.attr, want))
            idx.append(e.value.slice.value)
        found[tg.attr] = tuple(idx)
    if set(found) != {'time_interval', 'space_interval'}:
        raise TranslationError('DummyElement.__init__: time_interval / space_interval assignments not found')
    return found['time_interval'], found['space_interval']


# Element convention of src/mesh.py: vertices (t0,x0), (t0,x1), (t1,x1), (t1,x0); as (lambda_t, lambda_x)
ELEMENT_VERTS = [(F(0), F(0)), (F(0), F(1)), (F(1), F(1)), (F(1), F(0))]


def _check_element_convention(mesh_src):
    """The convention is read off the sanity asserts of Element.__init__ (same t on 0-1 and 2-3, same x on 1-2 and
    3-0, vertices[0].t < vertices[2].t, vertices[0].x < vertices[1].x)."""
    tree = ast.parse(mesh_src)
    init = _find(_find(tree.body, ast.ClassDef, 'Element').body, ast.FunctionDef, '__init__')
    want = {'self.vertices[0].t == self.vertices[1].t', 'self.vertices[1].x == self.vertices[2].x',
            'self.vertices[2].t == self.vertices[3].t', 'self.vertices[3].x == self.vertices[0].x',
            'self.vertices[0].t < self.vertices[2].t', 'self.vertices[0].x < self.vertices[1].x'}
    got = {ast.unparse(st.test) for st in init.body if isinstance(st, ast.Assert)}
    missing = want - got
    if missing:
        raise TranslationError('Element.__init__ no longer asserts the vertex convention: %s' % sorted(missing))


def _vertex_value(call, env):
    """Vertex(t=<expr in .t>, x=<expr in .x>, idx=...) -> (lambda_t, lambda_x)"""
    if not (isinstance(call, ast.Call) and isinstance(call.func, ast.Name) and call.func.id == 'Vertex' and not call.args):
        _fail(call, 'Vertex(t=..., x=..., idx=...) expected')
    kw = {k.arg: k.value for k in call.keywords}
    if set(kw) != {'t', 'x', 'idx'}:
        _fail(call, 'Vertex keywords')
    out = []
    for which, pos in (('t', 0), ('x', 1)):
        def atom(n, which=which):
            if isinstance(n, ast.Attribute) and isinstance(n.value, ast.Name) and n.value.id in env:
                if n.attr != which:
                    _fail(n, 'coordinate %s used in the %s-expression' % (n.attr, which))
                return n.value.id
            return None
        lf = _lin(kw[which], atom)
        # substitute: coordinate = (1 - lam) * c0 + lam * c1
        c0 = sum(v * (1 - env[name][pos]) for name, v in lf.items())
        c1 = sum(v * env[name][pos] for name, v in lf.items())
        if c0 + c1 != 1:
            _fail(call, 'vertex coordinate is not an affine combination of the parent coordinates')
        out.append(c1)
    return tuple(out)


def parse_hierarchical(src, mesh_src):
    _check_element_convention(mesh_src)
    tree = ast.parse(src)
    dummy = _find(tree.body, ast.ClassDef, 'DummyElement')
    (it0, it1), (ix0, ix1) = _interval_indices(_find(dummy.body, ast.FunctionDef, '__init__'))
    ur = _find(dummy.body, ast.FunctionDef, 'uniform_refinement')
    loops = [st for st in ur.body if isinstance(st, ast.For)]
    if len(loops) != 1 or not isinstance(loops[0].target, ast.Name):
        raise TranslationError('uniform_refinement: exactly one loop over the elements expected')
    loop = loops[0]
    elem_name = loop.target.id
    ret = [st for st in ur.body if isinstance(st, ast.Return)]
    if len(ret) != 1 or not isinstance(ret[0].value, ast.Name):
        raise TranslationError('uniform_refinement: return <name> expected')
    result_name = ret[0].value.id
    env = {}
    gamma_names = set()
    boxes = None
    children_name = None
    appended = False
    for st in loop.body:
        if isinstance(st, ast.Assign) and len(st.targets) == 1 and isinstance(st.targets[0], ast.Tuple):
            names = st.targets[0].elts
            v = st.value
            if not (len(names) == 4 and all(isinstance(n, ast.Name) for n in names) and isinstance(v, ast.Attribute)
                    and v.attr == 'vertices' and isinstance(v.value, ast.Name) and v.value.id == elem_name):
                _fail(st, 'v0, v1, v2, v3 = <elem>.vertices expected')
            for n, val in zip(names, ELEMENT_VERTS):
                env[n.id] = val
        elif isinstance(st, ast.Assign) and len(st.targets) == 1 and isinstance(st.targets[0], ast.Name):
            name = st.targets[0].id
            v = st.value
            if isinstance(v, ast.Call) and isinstance(v.func, ast.Name) and v.func.id == 'Vertex':
                env[name] = _vertex_value(v, env)
            elif (isinstance(v, ast.Attribute) and v.attr == 'gamma_space' and isinstance(v.value, ast.Name)
                  and v.value.id == elem_name):
                gamma_names.add(name)
            elif isinstance(v, ast.List):
                if boxes is not None:
                    _fail(st, 'second children list')
                children_name = name
                boxes = []
                for c in v.elts:
                    if not (isinstance(c, ast.Call) and isinstance(c.func, ast.Name) and c.func.id == 'DummyElement'
                            and not c.args):
                        _fail(c, 'DummyElement(vertices=[...], gamma_space=...) expected')
                    kw = {k.arg: k.value for k in c.keywords}
                    if set(kw) != {'vertices', 'gamma_space'}:
                        _fail(c, 'DummyElement keywords')
                    g = kw['gamma_space']
                    inherits = (isinstance(g, ast.Name) and g.id in gamma_names) or \
                        (isinstance(g, ast.Attribute) and g.attr == 'gamma_space' and isinstance(g.value, ast.Name)
                         and g.value.id == elem_name)
                    if not inherits:
                        _fail(c, 'child does not inherit the gamma_space of its parent')
                    vs = kw['vertices']
                    if not (isinstance(vs, ast.List) and len(vs.elts) == 4 and
                            all(isinstance(e, ast.Name) and e.id in env for e in vs.elts)):
                        _fail(c, 'vertices=[four known vertex names] expected')
                    pts = [env[e.id] for e in vs.elts]
                    T0, T1 = pts[it0][0], pts[it1][0]
                    X0, X1 = pts[ix0][1], pts[ix1][1]
                    if pts != [(T0, X0), (T0, X1), (T1, X1), (T1, X0)]:
                        _fail(c, 'child vertices %s do not follow the Element vertex convention' %
                              [e.id for e in vs.elts])
                    boxes.append((T0, T1, X0, X1))
            else:
                _fail(st, 'unsupported assignment in uniform_refinement')
        elif isinstance(st, ast.Expr) and isinstance(st.value, ast.Call):
            c = st.value
            ok = (isinstance(c.func, ast.Attribute) and c.func.attr == 'append' and isinstance(c.func.value, ast.Name)
                  and c.func.value.id == result_name and len(c.args) == 1 and isinstance(c.args[0], ast.Name)
                  and c.args[0].id == children_name)
            if not ok:
                _fail(st, 'result.append(children) expected')
            appended = True
        else:
            _fail(st, 'unsupported statement in uniform_refinement')
    if not boxes or not appended:
        raise TranslationError('uniform_refinement: children list / append not found')

    # --- estimate(): patterns and the combination
    est = _find(_find(tree.body, ast.ClassDef, 'HierarchicalErrorEstimator').body, ast.FunctionDef, 'estimate')
    patterns, combine, nloc = None, None, None
    for node in ast.walk(est):
        if isinstance(node, ast.For) and isinstance(node.iter, ast.Call) and isinstance(node.iter.func, ast.Name) \
                and node.iter.func.id == 'enumerate' and len(node.iter.args) == 1 and isinstance(node.iter.args[0], ast.List) \
                and node.iter.args[0].elts and all(isinstance(e, ast.List) for e in node.iter.args[0].elts):
            if patterns is not None:
                _fail(node, 'second pattern loop')
            pats = []
            for row in node.iter.args[0].elts:
                vals = [_num(e) for e in row.elts]
                if any(v.denominator != 1 for v in vals):
                    _fail(row, 'integer coefficients expected')
                pats.append([int(v) for v in vals])
            patterns = pats
        if isinstance(node, ast.Call) and isinstance(node.func, ast.Attribute) and node.func.attr == 'append' \
                and isinstance(node.func.value, ast.Name) and node.func.value.id == 'estims':
            if combine is not None or len(node.args) != 1 or not isinstance(node.args[0], ast.Tuple):
                _fail(node, 'estims.append((.., ..)) expected exactly once')

            def atom(n):
                if isinstance(n, ast.Subscript) and isinstance(n.value, ast.Name) and n.value.id == 'estim_loc' \
                        and isinstance(n.slice, ast.Constant) and isinstance(n.slice.value, int):
                    return n.slice.value
                return None
            combine = [_lin(e, atom) for e in node.args[0].elts]
        if isinstance(node, ast.Assign) and len(node.targets) == 1 and isinstance(node.targets[0], ast.Name) \
                and node.targets[0].id == 'estim_loc':
            v = node.value
            if not (isinstance(v, ast.Call) and isinstance(v.func, ast.Attribute) and v.func.attr == 'zeros'
                    and len(v.args) == 1 and isinstance(v.args[0], ast.Constant) and isinstance(v.args[0].value, int)):
                _fail(node, 'estim_loc = np.zeros(<int>) expected')
            nloc = v.args[0].value
    if patterns is None or combine is None or nloc is None:
        raise TranslationError('estimate(): pattern loop / estims.append / estim_loc not found')
    if nloc != len(patterns):
        raise TranslationError('estim_loc has %d entries for %d patterns' % (nloc, len(patterns)))
    if any(len(p) != len(boxes) for p in patterns):
        raise TranslationError('a pattern does not have one coefficient per child')
    comb = []
    for lf in combine:
        if any(not (0 <= k < nloc) for k in lf):
            raise TranslationError('combination uses estim_loc index out of range')
        comb.append([lf.get(k, F(0)) for k in range(nloc)])
    return dict(boxes=boxes, patterns=patterns, combine=comb,
                interval_indices=((it0, it1), (ix0, ix1)))


def parse_hh2(src):
    tree = ast.parse(src)
    est = _find(_find(tree.body, ast.ClassDef, 'HH2ErrorEstimator').body, ast.FunctionDef, 'estimate')
    found = []
    for node in ast.walk(est):
        if isinstance(node, ast.Assign) and len(node.targets) == 1 and isinstance(node.targets[0], ast.Name) \
                and node.targets[0].id == 'Phi_prolong':
            v = node.value
            ok = (isinstance(v, ast.Call) and isinstance(v.func, ast.Attribute) and v.func.attr == 'repeat'
                  and isinstance(v.func.value, ast.Name) and v.func.value.id == 'np' and len(v.args) == 2
                  and not v.keywords and isinstance(v.args[0], ast.Name) and v.args[0].id == 'Phi'
                  and isinstance(v.args[1], ast.Constant) and isinstance(v.args[1].value, int)
                  and not isinstance(v.args[1].value, bool))
            if not ok:
                _fail(node, 'Phi_prolong = np.repeat(Phi, <int>) expected, found %s' % ast.unparse(v))
            found.append(v.args[1].value)
    if len(found) != 1:
        raise TranslationError('h-h/2: exactly one assignment Phi_prolong = np.repeat(Phi, n) expected')
    return found[0]


def _rat(q):
    q = F(q)
    if q.denominator == 1:
        return '(%d : Rat)' % q.numerator
    return '((%d : Rat) / %d)' % (q.numerator, q.denominator)


def emit(c):
    out = ['/- GENERATED by translate/consts.py from src/hierarchical_error_estimator.py and '
           'src/h_h2_error_estimator.py -- do not edit. -/',
           'namespace Stbem.Gen.Consts', '',
           '/-- child `k` of `DummyElement.uniform_refinement`, in source order, as `(τ0, τ1, ξ0, ξ1)`: the child of',
           '`[t0,t1] × [x0,x1]` is `[t0 + τ0 (t1-t0), t0 + τ1 (t1-t0)] × [x0 + ξ0 (x1-x0), x0 + ξ1 (x1-x0)]` -/',
           'def childBoxes : List (Rat × Rat × Rat × Rat) :=',
           '  [' + ',\n   '.join('(%s, %s, %s, %s)' % tuple(_rat(v) for v in b) for b in c['boxes']) + ']', '',
           '/-- coefficient patterns of the loop `for k, coefs in enumerate([...])` -/',
           'def hierPatterns : List (List Int) :=',
           '  [' + ', '.join('[' + ', '.join(str(v) for v in p) + ']' for p in c['patterns']) + ']', '',
           '/-- the tuple appended to `estims`, as rows of coefficients of `estim_loc` -/',
           'def hierCombine : List (List Rat) :=',
           '  [' + ', '.join('[' + ', '.join(_rat(v) for v in row) + ']' for row in c['combine']) + ']', '',
           '/-- `np.repeat(Phi, n)` of the h-h/2 estimator -/',
           'def repeatFactor : Nat := %d' % c['repeat'], '',
           'end Stbem.Gen.Consts', '']
    return '\n'.join(out)


def parse_repo(repo):
    rd = lambda p: open(os.path.join(repo, 'src', p)).read()
    c = parse_hierarchical(rd('hierarchical_error_estimator.py'), rd('mesh.py'))
    c['repeat'] = parse_hh2(rd('h_h2_error_estimator.py'))
    return c


def generate(repo, gen_dir, write):
    c = parse_repo(repo)
    write(os.path.join(gen_dir, 'Consts.lean'), emit(c))
    return c


if __name__ == '__main__':
    sys.path.insert(0, os.path.join(os.path.dirname(os.path.abspath(__file__)), '..'))
    from harness.common import write_if_changed
    gen = os.path.join(os.path.dirname(os.path.abspath(__file__)), '..', 'lean', 'Stbem', 'Gen')
    print(generate(sys.argv[1] if len(sys.argv) > 1 else '/repo', gen, write_if_changed))
