#!/venv/bin/python
"""Translator: the LOGIC of `src/error_estimator.py` (ast) -> lean/Stbem/Gen/EstimatorGen.lean
(Mathlib-free, executable; imports the mesh model `Stbem.Model.Mesh` and `Gen/QuadGen.lean`).

Generated from the *bodies* of (statement by statement, in the order of the source, Lean `do` blocks in `Except String`):
  * `ErrorEstimator.__integrate_h_1_2`, `__integrate_h_1_4`   -> `integrate_h_1_2`, `integrate_h_1_4`
  * `ErrorEstimator.sobolev_space`, `sobolev_time`            -> same names
  * `ErrorEstimator.weighted_l2`                              -> `weighted_l2`
  * `MP_estim_l2`, `MP_estim_sobolev_time`, `MP_estim_sobolev_space` (module functions) -> same names
  * `ErrorEstimator.estimate_weighted_l2`, `estimate_sobolev` -> same names (serial and pool path in one definition)
NOT translated, by design (named here, never skipped silently): `ErrorEstimator.residual` (the residual function: the
single-layer evaluation, C03/C07) — nothing translated may call it; `ErrorEstimator.__init__` is CHECKED, not translated:
the assignments that define the fields the translated methods read must have the texts listed in INIT_FIELDS.

NUMERICS STAY PARAMETERS (exactly as the hand model `Stbem.Model.Estimator` treats them): the routines of
`self.slobodeckij` (`seminorm_h_1_2`, `seminorm_h_1_2_pw`, `seminorm_h_1_4`), `np.allclose(gamma(a), gamma(b))`, `sqrt`,
the residual, `mp.cpu_count()`, the pool's `map`.  A local function handed to a seminorm routine (`residual_t`, `slo`) is
represented by the values it captures (its source text must be the one listed in CLOSURES).

Object model (TRUSTED, written into the generated file, validated by the correspondence runs of harness/checks/C09.py in which
the driver answers every request with the generated functions as well):
  * an `Element` reference                 = the `Cell` of its immutable fields; `elem.glob_idx` = `id`; `a is b` = equal `id`;
    `elem.time_interval` = `(t0, t1)`, `elem.space_interval` = `(x0, x1)`, `elem.vertices[0].x / [2].x` = `x0 / x1`
    (`Element.__init__`), `elem.h_t / h_x` = `t1 - t0 / x1 - x0`, `elem.gamma_space` = the piece index `piece`
    (`is` / `==` of parametrisation objects = equal piece index);
  * `elem.edges_axis(ax)`                  = the sides `(edges[1 - ax], edges[3 - ax])` of the element (the text of
    `Element.edges_axis` in src/mesh.py is checked), `edge.neighbour_elements()` = `Stbem.Mesh.nbrs` in the mesh the
    estimator was built for (`self.bdr_mesh`; tied to the pointer code by C10);
  * `self.gamma_len`, `self.gauss`, `self.gauss_2d` = fields of the record `ErrorEstimator` (definitions checked in `__init__`);
    `self.cache_dir` is `None` (ASSUMPTION: the caching blocks `if self.cache_dir is not None:` are not modelled);
  * `self.__integrate_h_1_2 / __integrate_h_1_4` (name-mangled attribute look-ups that the correspondence replaces by
    tokens) = parameters; Props/EstimatorTie.lean also binds them to the translated methods;
  * `float(x)` = `x`; `math.fsum` = exact sum; `max / min`; `np.zeros(n)` = zeros, `v[i] = e` = `listSet` (`IndexError`);
    an `(N, 2)` array = list of pairs, `a[i, k] += e` = `addAt2` (`IndexError`); a `dict` = the list of its insertions,
    `d[k]` = the LAST insertion (`KeyError`);
  * `globals()['__x'] = v` / `global __x`  = the module global `__x` is the Lean value `g_x`, passed to the worker functions;
    `with mp.Pool(cpu) as p: list(p.map(f, range(N), chunk))` = `poolMap pmap f N chunk` for a parameter `pmap`
    (a worker that raises makes the call raise);
  * `print` = nothing.
"""
import ast
import os
import sys

sys.path.insert(0, os.path.dirname(os.path.abspath(__file__)))
from panels import Stats, TranslationError  # noqa: E402

SRC_FILE = os.path.join('src', 'error_estimator.py')
MESH_FILE = os.path.join('src', 'mesh.py')
CLASS = 'ErrorEstimator'

# ---- types ----------------------------------------------------------------------------------------------------------
RAT, NAT, BOOL, PROP, ELEM, PIECE, ARR, SELF, SIDE, RESID, POOL, NONE = (('rat', ), ('nat', ), ('bool', ), ('prop', ), ('elem', ),
                                                                      ('piece', ), ('arr', ), ('self', ), ('side', ), ('resid', ),
                                                                      ('pool', ), ('none', ))
SCHEME1, SCHEME2 = ('scheme1', ), ('scheme2', )


def TList(t):
    return ('list', t)


def TTuple(*ts):
    return ('tuple', tuple(ts))


def TOpt(t):
    return ('opt', t)


EDGE = TTuple(ELEM, SIDE)
IPS = TList(TTuple(NAT, RAT))
RES = TTuple(RAT, IPS)
PAIR = TTuple(RAT, RAT)
ARRAY2 = TList(PAIR)
DICT = ('dict', )


def lean_type(t):
    k = t[0]
    if k == 'list':
        return 'List %s' % lean_type_p(t[1])
    if k == 'tuple':
        return ' × '.join(lean_type_p(x) if x[0] == 'tuple' and i < len(t[1]) - 1 else lean_type_a(x) for i, x in enumerate(t[1]))
    if k == 'opt':
        return 'Option %s' % lean_type_p(t[1])
    return {'rat': 'Rat', 'nat': 'Nat', 'bool': 'Bool', 'elem': 'Cell', 'piece': 'Nat', 'arr': 'List Rat', 'self': 'ErrorEstimator',
            'side': 'Side', 'resid': 'Rat → Rat → Nat → Rat', 'scheme1': 'QuadScheme1D', 'scheme2': 'QuadScheme2D',
            'dict': 'List (Nat × Nat)'}[k]


def lean_type_a(t):
    """argument position of `×` / `List`: function types and applications need parentheses"""
    s = lean_type(t)
    return '(%s)' % s if ('→' in s) else s


def lean_type_p(t):
    s = lean_type(t)
    return '(%s)' % s if (' ' in s) else s


def paren(code):
    code = code.strip()
    if code.replace('_', 'a').replace('.', 'a').isalnum():
        return code
    if code.startswith('(') and _matching(code) == len(code) - 1:
        return code
    return '(' + code + ')'


def _matching(code):
    depth = 0
    for i, ch in enumerate(code):
        if ch == '(':
            depth += 1
        elif ch == ')':
            depth -= 1
            if depth == 0:
                return i
    return -1


# ---- declarations ---------------------------------------------------------------------------------------------------
# the fields of `self` the translated methods read, with the text of their definition in `__init__`
INIT_FIELDS = {
    'bdr_mesh': ('mesh', 'Mesh'),
    'gamma_len': ('mesh.gamma_space.gamma_length', 'Rat'),
    'gauss_2d': ('ProductScheme2D(gauss_quadrature_scheme(N_weighted_l2))', 'QuadScheme2D'),
    'gauss': ('gauss_quadrature_scheme(N_slobo_outer)', 'QuadScheme1D'),
    'slobodeckij': ('Slobodeckij(N_slobo_time, N_slobo_space)', None),
    'cache_dir': ('cache_dir', None),
}
FIELD_TYPES = {'gamma_len': RAT, 'gauss_2d': SCHEME2, 'gauss': SCHEME1}
EDGES_AXIS_BODY = ['assert 0 <= ax <= 1', 'return (self.edges[1 - ax], self.edges[3 - ax])']
NOT_TRANSLATED = {'residual': 'the residual function (single-layer evaluation: C03 / C07)', '__init__': 'checked (INIT_FIELDS), not translated'}

# methods: python name -> (lean name, parameter types by python parameter name, result type)
METHODS = {
    '__integrate_h_1_2': ('integrate_h_1_2', [('residual', RESID), ('t_a', RAT), ('t_b', RAT), ('elem_left', ELEM), ('elem_right', TOpt(ELEM))], RAT),
    '__integrate_h_1_4': ('integrate_h_1_4', [('residual', RESID), ('t_a', RAT), ('t_b', RAT), ('x_a', RAT), ('x_b', RAT), ('gamma', PIECE)], RAT),
    'sobolev_space': ('sobolev_space', [('elem', ELEM), ('residual', RESID), ('nbrs_symmetry', BOOL)], RES),
    'sobolev_time': ('sobolev_time', [('elem', ELEM), ('residual', RESID), ('nbrs_symmetry', BOOL)], RES),
    'weighted_l2': ('weighted_l2', [('elem', ELEM), ('residual', RESID)], PAIR),
    'estimate_weighted_l2': ('estimate_weighted_l2', [('elems', TList(ELEM)), ('residual', RESID), ('use_mp', BOOL)], ARRAY2),
    'estimate_sobolev': ('estimate_sobolev', [('elems', TList(ELEM)), ('residual', RESID), ('use_mp', BOOL)], ARRAY2),
}
BOOL_DEFAULTS = {'nbrs_symmetry': False, 'use_mp': False}
PRIVATE_PARAMS = {'__integrate_h_1_2': 'integrate_h_1_2', '__integrate_h_1_4': 'integrate_h_1_4'}   # late-bound: parameters
WORKERS = {'MP_estim_l2': PAIR, 'MP_estim_sobolev_time': RES, 'MP_estim_sobolev_space': RES}
GLOBALS = {'__elems': ('g_elems', TList(ELEM)), '__error_estimator': ('g_error_estimator', SELF), '__residual': ('g_residual', RESID)}
ORDER = ['__integrate_h_1_2', '__integrate_h_1_4', 'sobolev_space', 'sobolev_time', 'weighted_l2', 'MP_estim_l2', 'MP_estim_sobolev_time',
         'MP_estim_sobolev_space', 'estimate_weighted_l2', 'estimate_sobolev']

# external parameters: name -> (Lean type, what it stands for); a function gets the ones it (transitively) uses, in this order
EXTERNALS = [
    ('seminorm_h_1_2', '(Rat → Rat → Nat → Rat) → Rat → Rat → Rat → Nat → Except String Rat',
     '`self.slobodeckij.seminorm_h_1_2(residual_t, a, b, gamma)`; `residual_t` = the closure over `(residual, t)`'),
    ('seminorm_h_1_2_pw', '(Rat → Rat → Nat → Rat) → Rat → Rat → Rat → Nat → Rat → Rat → Nat → Except String Rat',
     '`self.slobodeckij.seminorm_h_1_2_pw(residual_t, a_1, b_1, gamma_1, a_2, b_2, gamma_2)`'),
    ('seminorm_h_1_4', '(Rat → Rat → Nat → Rat) → Rat → Nat → Rat → Rat → Except String Rat',
     '`self.slobodeckij.seminorm_h_1_4(slo, t_a, t_b)`; `slo` = the closure over `(residual, x_hat, gamma)`'),
    ('allclose', 'Nat → Rat → Rat → Bool', '`np.allclose(gamma(a), gamma(b))` for the piece `gamma`'),
    ('sqrt', 'Rat → Rat', '`math.sqrt`'),
    ('integrate_h_1_2', '(Rat → Rat → Nat → Rat) → Rat → Rat → Cell → Option Cell → Except String Rat', '`self.__integrate_h_1_2`'),
    ('integrate_h_1_4', '(Rat → Rat → Nat → Rat) → Rat → Rat → Rat → Rat → Nat → Except String Rat', '`self.__integrate_h_1_4`'),
    ('cpu_count', 'Nat', '`mp.cpu_count()`'),
    ('pmap', '{β : Type} → (Nat → Except String β) → Nat → Nat → List (Except String β)', 'the `map` of a process pool: `pmap f N chunk` = `p.map(f, range(N), chunk)`'),
]
EXT_NAMES = [e[0] for e in EXTERNALS]
# local functions handed to the seminorm routines: (method, name) -> (source text, captured values in the order they are passed)
CLOSURES = {
    ('__integrate_h_1_2', 'residual_t'): ('def residual_t(x_hat: npt.ArrayLike, x: npt.ArrayLike) -> npt.ArrayLike:\n'
                                          '    return residual(np.repeat(t, len(x_hat)), x_hat, x)', ['residual', 't']),
    ('__integrate_h_1_4', 'slo'): ('def slo(t: npt.ArrayLike) -> npt.ArrayLike:\n'
                                   '    return residual(t, np.repeat(x_hat, len(t)), gamma)', ['residual', 'x_hat', 'gamma']),
}
# variables initialised with `[]`
LOCAL_LIST_TYPES = {'ips': IPS}

ASSERT_TAGS = {
    ('__integrate_h_1_2', 'np.allclose(gamma(elem_left.space_interval[1]), gamma(elem_right.space_interval[0]))'): 'allclose',
    ('sobolev_space', 't_a < t_b'): 't_a<t_b',
    ('sobolev_space', 'time_nbr is elem'): 'time_nbr-is-elem',
    ('sobolev_space', 'len(ips) >= 1'): 'len(ips)',
    ('sobolev_time', 'elem.gamma_space == space_nbr.gamma_space'): 'gamma_space',
    ('sobolev_time', 'x_a < x_b'): 'x_a<x_b',
    ('sobolev_time', 'len(ips) >= 1'): 'len(ips)',
}

LEAN_KEYWORDS = {
    'at', 'do', 'then', 'else', 'if', 'fun', 'let', 'have', 'show', 'from', 'end', 'in', 'match', 'with', 'where', 'by', 'open',
    'Type', 'Prop', 'Sort', 'def', 'theorem', 'example', 'namespace', 'section', 'variable', 'universe', 'import', 'return',
    'for', 'unless', 'try', 'catch', 'finally', 'mut', 'this', 'using', 'deriving', 'instance', 'structure', 'class', 'inductive',
    'break', 'continue', 'true', 'false', 'pure', 'throw', 'abbrev', 'macro', 'syntax', 'notation', 'infix', 'prefix', 'postfix',
    'private', 'protected', 'partial', 'mutual', 'attribute', 'export', 'extends', 'max', 'min', 'some', 'none', 'id',
}
RUNTIME_NAMES = {'assertThat', 'edgesAxis', 'neighbourElements', 'getIdx', 'listSet', 'addAt2', 'dictGet', 'dictOf', 'enumerate', 'fsum',
                 'poolMap', 'npMapR', 'zeros2', 'Cell', 'Mesh', 'Side', 'List', 'Rat', 'Nat', 'Bool', 'Except', 'String', 'Option', 'z', 'β',
                 'ErrorEstimator', 'EstimatorGen'} | set(EXT_NAMES) | set(WORKERS)

PRELUDE = r'''/-! ### object model: the bindings the translated bodies refer to (TRUSTED, see translate/estimatorgen.py) -/

/-- what the translated methods read of an `ErrorEstimator` object (`__init__`: `self.bdr_mesh = mesh`,
`self.gamma_len = mesh.gamma_space.gamma_length`, `self.gauss = gauss_quadrature_scheme(N_slobo_outer)`,
`self.gauss_2d = ProductScheme2D(gauss_quadrature_scheme(N_weighted_l2))`; `self.cache_dir` is `None`) -/
structure ErrorEstimator where
  bdr_mesh : Mesh
  gamma_len : Rat
  gauss : QuadScheme1D
  gauss_2d : QuadScheme2D

/-- `assert c` -/
def assertThat (c : Prop) [Decidable c] (tag : String) : Except String Unit :=
  if c then pure () else .error tag
/-- `elem.edges_axis(ax)` = `(elem.edges[1 - ax], elem.edges[3 - ax])`; an edge = (its element, the side it lies on);
`edges = (bottom, right, top, left)` (`Element.__init__`) -/
def edgesAxis (elem : Cell) (ax : Nat) : Except String (List (Cell × Side)) :=
  match ax with
  | 0 => pure [(elem, .right), (elem, .left)]
  | 1 => pure [(elem, .bottom), (elem, .top)]
  | _ => .error "assert:axis"
/-- `edge.neighbour_elements()` in the mesh `m` -/
def neighbourElements (m : Mesh) (edge : Cell × Side) : List Cell := nbrs m edge.1 edge.2
/-- `l[i]` -/
def getIdx {α} (l : List α) (i : Nat) : Except String α :=
  match l[i]? with
  | some a => pure a
  | none => .error "IndexError"
/-- `enumerate(l)` -/
def enumerateFrom {α} : Nat → List α → List (Nat × α)
  | _, [] => []
  | k, a :: l => (k, a) :: enumerateFrom (k + 1) l
def enumerate {α} (l : List α) : List (Nat × α) := enumerateFrom 0 l
/-- `v[i] = e` for a 1-D array -/
def listSet (l : List Rat) (i : Nat) (e : Rat) : Except String (List Rat) :=
  if i < l.length then pure (l.set i e) else .error "IndexError"
/-- `np.zeros((n, 2))` -/
def zeros2 (n : Nat) : List (Rat × Rat) := List.replicate n ((0 : Rat), (0 : Rat))
/-- `a[i, k] += e` for an `(N, 2)` array (`k` a literal column) -/
def addAt2 (a : List (Rat × Rat)) (i k : Nat) (e : Rat) : Except String (List (Rat × Rat)) :=
  if i < a.length then
    match k with
    | 0 => pure (a.modify i fun q => (q.1 + e, q.2))
    | 1 => pure (a.modify i fun q => (q.1, q.2 + e))
    | _ => .error "IndexError"
  else .error "IndexError"
/-- `{k: v for …}` as the list of its (key, value) insertions in order -/
def dictOf (l : List (Nat × Nat)) : List (Nat × Nat) := l
/-- `d[k]`: the LAST insertion for the key wins -/
def dictGet (d : List (Nat × Nat)) (k : Nat) : Except String Nat :=
  match d.foldl (fun acc x => if x.1 == k then some x.2 else acc) none with
  | some v => pure v
  | none => .error "KeyError"
/-- `math.fsum(l)`: the exact sum -/
def fsum (l : List Rat) : Rat := l.foldr (· + ·) 0
/-- `list(p.map(f, range(N), chunk))` for the pool's `map` `pmap`: the results, or the exception of a worker -/
def poolMap {β : Type} (pmap : {β : Type} → (Nat → Except String β) → Nat → Nat → List (Except String β))
    (f : Nat → Except String β) (N chunk : Nat) : Except String (List β) := (pmap f N chunk).mapM id
/-- `residual(t, x_hat, gamma)` on two 1-D arrays: entry-wise -/
def npMapR (r : Rat → Rat → Nat → Rat) (t x : List Rat) (g : Nat) : List Rat := List.zipWith (fun u v => r u v g) t x
'''


# ---- source ---------------------------------------------------------------------------------------------------------
class Source:
    def __init__(self, repo):
        import warnings
        self.text = open(os.path.join(repo, SRC_FILE)).read()
        with warnings.catch_warnings():
            warnings.simplefilter('ignore')
            self.tree = ast.parse(self.text)
            self.mesh_text = open(os.path.join(repo, MESH_FILE)).read()
            self.mesh_tree = ast.parse(self.mesh_text)
        self.functions, self.cls = {}, None
        allowed_imports = {'import hashlib', 'import math', 'import multiprocessing as mp', 'from math import sqrt', 'import cython',
                           'import numpy as np', 'import numpy.typing as npt', 'from .norms import Slobodeckij',
                           'from .quadrature import ProductScheme2D, gauss_quadrature_scheme'}
        for n in self.tree.body:
            if isinstance(n, (ast.Import, ast.ImportFrom)):
                if ast.unparse(n) not in allowed_imports:
                    raise TranslationError('unsupported import `%s`' % ast.unparse(n))
            elif isinstance(n, ast.FunctionDef):
                if n.name in self.functions:
                    raise TranslationError('%s defined twice' % n.name)
                if n.name not in WORKERS:
                    raise TranslationError('module function %s: not declared (not translated, not skipped)' % n.name)
                self.functions[n.name] = n
            elif isinstance(n, ast.ClassDef):
                if n.name != CLASS or self.cls is not None or n.bases or n.decorator_list or n.keywords:
                    raise TranslationError('unexpected class %s' % n.name)
                self.cls = n
            elif isinstance(n, ast.Expr) and isinstance(n.value, ast.Constant) and isinstance(n.value.value, str):
                pass
            else:
                raise TranslationError('unsupported module-level statement line %d: %s' % (n.lineno, self.seg(n)[:100]))
        if self.cls is None:
            raise TranslationError('class %s not found' % CLASS)
        self.methods = {}
        for n in self.cls.body:
            if isinstance(n, ast.FunctionDef):
                if n.name in self.methods:
                    raise TranslationError('method %s defined twice' % n.name)
                self.methods[n.name] = n
            elif not (isinstance(n, ast.Expr) and isinstance(n.value, ast.Constant) and isinstance(n.value.value, str)):
                raise TranslationError('class %s: unsupported class-level statement `%s`' % (CLASS, self.seg(n)[:80]))
        for name in self.methods:
            if name not in METHODS and name not in NOT_TRANSLATED:
                raise TranslationError('%s.%s: unknown method (not translated, not skipped)' % (CLASS, name))
        for name in list(METHODS) + list(NOT_TRANSLATED):
            if name not in self.methods:
                raise TranslationError('%s.%s: method not found' % (CLASS, name))
        for name in WORKERS:
            if name not in self.functions:
                raise TranslationError('module function %s not found' % name)
        self.check_init()
        self.check_edges_axis()
        # `==` / `is` of parametrisation objects and of elements is identity: no class of the two modules defines `__eq__`
        for fname in (MESH_FILE, os.path.join('src', 'parametrization.py')):
            with warnings.catch_warnings():
                warnings.simplefilter('ignore')
                tree = ast.parse(open(os.path.join(repo, fname)).read())
            for n in ast.walk(tree):
                if isinstance(n, ast.FunctionDef) and n.name in ('__eq__', '__ne__', '__lt__', '__gt__', '__le__', '__ge__'):
                    raise TranslationError('%s defines %s (the object model takes `==` of elements / parametrisations as identity)' %
                                           (fname, n.name))
        # no translated method is rebound / no attribute of self is stored outside __init__
        for name, fn in self.methods.items():
            if name == '__init__':
                continue
            for n in ast.walk(fn):
                if isinstance(n, ast.Attribute) and isinstance(n.ctx, (ast.Store, ast.Del)):
                    raise TranslationError('%s line %d: attribute store `%s`' % (name, n.lineno, self.seg(n)))
                if isinstance(n, ast.Call) and isinstance(n.func, ast.Name) and n.func.id in ('setattr', 'delattr', 'exec', 'eval'):
                    raise TranslationError('%s uses %s' % (name, n.func.id))

    def seg(self, node):
        s = ast.get_source_segment(self.text, node)
        return ' '.join((s or ast.unparse(node)).split())

    def check_init(self):
        fn = self.methods['__init__']
        found = {}
        for n in ast.walk(fn):
            if isinstance(n, ast.Assign) and len(n.targets) == 1 and isinstance(n.targets[0], ast.Attribute) and \
                    isinstance(n.targets[0].value, ast.Name) and n.targets[0].value.id == 'self':
                f = n.targets[0].attr
                if f in found:
                    raise TranslationError('__init__: self.%s is assigned twice' % f)
                found[f] = ast.unparse(n.value)
        for f, (text, _) in INIT_FIELDS.items():
            if found.get(f) != text:
                raise TranslationError('__init__: `self.%s = %s` expected, found `%s` (the object model binds this field)' % (f, text, found.get(f)))
        want = 'N_weighted_l2, N_slobo_outer, N_slobo_time, N_slobo_space = N_poly'
        if not any(isinstance(n, ast.Assign) and ast.unparse(n) == want for n in ast.walk(fn)):
            raise TranslationError('__init__: `%s` expected' % want)

    def check_edges_axis(self):
        for n in self.mesh_tree.body:
            if isinstance(n, ast.ClassDef) and n.name == 'Element':
                for m in n.body:
                    if isinstance(m, ast.FunctionDef) and m.name == 'edges_axis':
                        body = [ast.unparse(s) for s in m.body]
                        if body != EDGES_AXIS_BODY or [a.arg for a in m.args.args] != ['self', 'ax']:
                            raise TranslationError('src/mesh.py Element.edges_axis is %s (the object model binds %s)' % (body, EDGES_AXIS_BODY))
                        return
        raise TranslationError('src/mesh.py: Element.edges_axis not found')


class Done:
    """a translated function: what callers need"""
    def __init__(self, lean, params, ret, exc, ext, kind):
        self.lean, self.params, self.ret, self.exc, self.ext, self.kind = lean, params, ret, exc, ext, kind


# ---- translator of one function body --------------------------------------------------------------------------------
class Tr:
    def __init__(self, src, stats, pyname, done, is_method):
        self.src, self.stats, self.pyname, self.done, self.is_method = src, stats, pyname, done, is_method
        self.lines = []
        self.ntmp = 0
        self.ext = set()
        self.multi = set()    # names assigned more than once (declared `let mut`)
        self.closures = {}    # local function name -> captured names
        self.loop_depth = 0

    def err(self, node, msg):
        raise TranslationError('%s line %s: %s: `%s`' % (self.pyname, getattr(node, 'lineno', '?'), msg, self.src.seg(node)[:160]))

    def name_ok(self, node, name):
        if name in LEAN_KEYWORDS or name in RUNTIME_NAMES or not name.isidentifier() or not name.isascii() or name.startswith('_') \
                or name.startswith('g_') or name.startswith('np') or (len(name) > 1 and name[0] in 'rt' and name[1:].isdigit()):
            self.err(node, 'the local name `%s` cannot be used as a Lean name here' % name)
        return name

    def tmp(self, kind='t'):
        self.ntmp += 1
        return '%s%d' % (kind, self.ntmp)

    def emit(self, ind, text):
        self.lines.append(' ' * ind + text)

    def use_ext(self, name):
        self.ext.add(name)
        return name

    def hoist(self, ind, code, typ):
        t = self.tmp()
        self.emit(ind, 'let %s ← %s' % (t, code))
        return (t, typ)

    # ---- coercions ------------------------------------------------------------------------------------------------
    def rat(self, node, v):
        if v[1] == RAT:
            return v[0]
        if v[1] == ('lit', ):
            return '(%d : Rat)' % v[0] if v[0] >= 0 else '(-%d : Rat)' % -v[0]
        self.err(node, 'number expected, got %s' % (v[1], ))

    def nat(self, node, v):
        if v[1] == NAT:
            return v[0]
        if v[1] == ('lit', ) and v[0] >= 0:
            return str(v[0])
        self.err(node, 'non-negative integer expected, got %s' % (v[1], ))

    def coerce(self, node, v, t):
        """value `v` where type `t` is expected"""
        if t == RAT:
            return self.rat(node, v)
        if t == NAT or t == PIECE:
            if v[1] in (NAT, PIECE):
                return v[0]
            return self.nat(node, v)
        if t[0] == 'opt':
            if v[1] == NONE:
                return 'none'
            if v[1] == t:
                return v[0]
            if v[1] == t[1]:
                return '(some %s)' % paren(v[0])
        if t == BOOL and v[1] == BOOL:
            return v[0]
        if v[1] == t:
            return v[0]
        self.err(node, 'value of type %s where %s is expected' % (v[1], t))

    # ---- expressions ----------------------------------------------------------------------------------------------
    def expr(self, node, env, ind):
        if isinstance(node, ast.Constant):
            if node.value is None:
                return ('none', NONE)
            if isinstance(node.value, bool):
                return ('true' if node.value else 'false', BOOL)
            if isinstance(node.value, int):
                return (node.value, ('lit', ))
            self.err(node, 'unsupported constant')
        if isinstance(node, ast.Name):
            if node.id in env:
                return env[node.id]
            if node.id in GLOBALS:
                self.err(node, 'module global read without a `global` declaration / before `globals()[…] = …`')
            self.err(node, 'unknown name')
        if isinstance(node, ast.Attribute):
            return self.attribute(node, env, ind)
        if isinstance(node, ast.Subscript):
            return self.subscript(node, env, ind)
        if isinstance(node, ast.Tuple):
            vs = [self.expr(e, env, ind) for e in node.elts]
            vs = [(self.rat(node, v), RAT) if v[1] == ('lit', ) else v for v in vs]
            if len(vs) < 2:
                self.err(node, 'tuple with fewer than two components')
            return ('(%s)' % ', '.join(v[0] for v in vs), TTuple(*[v[1] for v in vs]))
        if isinstance(node, ast.List):
            if not node.elts:
                self.err(node, 'empty list display outside an assignment')
            vs = [self.expr(e, env, ind) for e in node.elts]
            if any(v[1] != vs[0][1] for v in vs):
                self.err(node, 'list of values of different types')
            return ('[%s]' % ', '.join(v[0] for v in vs), TList(vs[0][1]))
        if isinstance(node, ast.BinOp):
            return self.binop(node, env, ind)
        if isinstance(node, (ast.Compare, ast.BoolOp)) or (isinstance(node, ast.UnaryOp) and isinstance(node.op, ast.Not)):
            return (self.cond(node, env, ind), PROP)
        if isinstance(node, ast.Call):
            return self.call(node, env, ind)
        if isinstance(node, ast.ListComp):
            return self.listcomp(node, env, ind)
        if isinstance(node, ast.DictComp):
            return self.dictcomp(node, env, ind)
        self.err(node, 'unsupported expression')

    ELEM_ATTRS = {'glob_idx': ('%s.id', NAT), 'h_t': ('(%s.t1 - %s.t0)', RAT), 'h_x': ('(%s.x1 - %s.x0)', RAT),
                  'gamma_space': ('%s.piece', PIECE),
                  'time_interval': ('(%s.t0, %s.t1)', TTuple(RAT, RAT)), 'space_interval': ('(%s.x0, %s.x1)', TTuple(RAT, RAT))}

    def attribute(self, node, env, ind):
        # elem.vertices[k].x
        if node.attr in ('x', 't') and isinstance(node.value, ast.Subscript) and isinstance(node.value.value, ast.Attribute) \
                and node.value.value.attr == 'vertices':
            e = self.expr(node.value.value.value, env, ind)
            k = node.value.slice
            if e[1] != ELEM or not (isinstance(k, ast.Constant) and k.value in (0, 1, 2, 3) and not isinstance(k.value, bool)):
                self.err(node, 'only elem.vertices[<0..3>].x / .t are supported')
            # vertices in the order (t0, x0), (t0, x1), (t1, x1), (t1, x0) (`Element.__init__`)
            f = {'x': ['x0', 'x1', 'x1', 'x0'], 't': ['t0', 't0', 't1', 't1']}[node.attr][k.value]
            self.stats.bump('vertex_reads')
            return ('%s.%s' % (e[0], f), RAT)
        v = self.expr(node.value, env, ind)
        if v[1] == ELEM and node.attr in self.ELEM_ATTRS:
            pat, t = self.ELEM_ATTRS[node.attr]
            self.stats.bump('element_attribute_reads')
            return (pat.replace('%s', paren(v[0])), t)
        if v[1] == SELF:
            if node.attr in FIELD_TYPES:
                self.stats.bump('field_reads')
                return ('%s.%s' % (paren(v[0]), node.attr), FIELD_TYPES[node.attr])
            self.err(node, 'the object model has no field `%s` of the estimator' % node.attr)
        if v[1] in (SCHEME1, SCHEME2):
            if node.attr == 'weights':
                return ('%s.weights' % paren(v[0]), ARR)
            if node.attr == 'points':
                return ('%s.points' % paren(v[0]), ARR if v[1] == SCHEME1 else ('mat', ))
            self.err(node, 'a quadrature scheme has no data field `%s`' % node.attr)
        self.err(node, 'unsupported attribute of a value of type %s' % (v[1], ))

    def subscript(self, node, env, ind):
        idx = node.slice
        v = self.expr(node.value, env, ind)
        lit = idx.value if isinstance(idx, ast.Constant) and isinstance(idx.value, int) and not isinstance(idx.value, bool) else None
        if v[1][0] == 'tuple':
            if lit is None or not 0 <= lit < len(v[1][1]):
                self.err(node, 'tuple index must be a literal in range')
            n = len(v[1][1])
            # a tuple expression `(a, b)` is projected syntactically
            if v[0].startswith('(') and _matching(v[0]) == len(v[0]) - 1 and self._top_commas(v[0]) == n - 1:
                return (self._split_tuple(v[0])[lit], v[1][1][lit])
            code = paren(v[0]) + ''.join('.2' for _ in range(lit)) + ('.1' if lit < n - 1 else '')
            return (code, v[1][1][lit])
        if v[1] == ('mat', ):
            if lit is None or lit < 0:
                self.err(node, 'row index must be a non-negative literal')
            return ('(npRow %s %d)' % (paren(v[0]), lit), ARR)
        if v[1] == DICT:
            k = self.expr(idx, env, ind)
            self.stats.bump('dict_lookups')
            return self.hoist(ind, 'dictGet %s %s' % (paren(v[0]), paren(self.nat(node, k))), NAT)
        if v[1][0] == 'list':
            k = self.expr(idx, env, ind)
            self.stats.bump('list_reads')
            return self.hoist(ind, 'getIdx %s %s' % (paren(v[0]), paren(self.nat(node, k))), v[1][1])
        self.err(node, 'subscript of %s' % (v[1], ))

    @staticmethod
    def _top_commas(code):
        depth, n = 0, 0
        for ch in code[1:-1]:
            if ch in '([':
                depth += 1
            elif ch in ')]':
                depth -= 1
            elif ch == ',' and depth == 0:
                n += 1
        return n

    @staticmethod
    def _split_tuple(code):
        parts, depth, cur = [], 0, ''
        for ch in code[1:-1]:
            if ch in '([':
                depth += 1
            elif ch in ')]':
                depth -= 1
            if ch == ',' and depth == 0:
                parts.append(cur.strip())
                cur = ''
            else:
                cur += ch
        parts.append(cur.strip())
        return parts

    OPS = {ast.Add: '+', ast.Sub: '-', ast.Mult: '*', ast.Div: '/'}

    def binop(self, node, env, ind):
        if isinstance(node.op, ast.Pow):
            if not (isinstance(node.right, ast.Constant) and isinstance(node.right.value, int) and not isinstance(node.right.value, bool)
                    and node.right.value >= 0):
                self.err(node, 'only ** <non-negative int literal> is supported')
            v = self.expr(node.left, env, ind)
            if v[1] == ARR:
                return ('(npPow %s %d)' % (paren(v[0]), node.right.value), ARR)
            return ('(%s ^ %d)' % (self.rat(node, v), node.right.value), RAT)
        a, b = self.expr(node.left, env, ind), self.expr(node.right, env, ind)
        if isinstance(node.op, ast.FloorDiv):
            # `//` on non-negative ints = `Nat` division (a zero divisor raises in Python and gives 0 in Lean: `cpu_count ≥ 1`)
            return ('(%s / %s)' % (self.nat(node, a), self.nat(node, b)), NAT)
        op = self.OPS.get(type(node.op))
        if op is None:
            self.err(node, 'unsupported binary operator')
        ints = (NAT, ('lit', ))
        if a[1] in ints and b[1] in ints and NAT in (a[1], b[1]):
            if op not in ('+', '*'):
                self.err(node, 'operator %s on non-negative integers' % op)
            return ('(%s %s %s)' % (self.nat(node, a), op, self.nat(node, b)), NAT)
        num = (RAT, ('lit', ))
        if a[1] in num and b[1] in num:
            return ('(%s %s %s)' % (self.rat(node, a), op, self.rat(node, b)), RAT)
        self.stats.bump('array_ops')
        if a[1] in num and b[1] == ARR:
            return ('(npSA (· %s ·) %s %s)' % (op, paren(self.rat(node, a)), paren(b[0])), ARR)
        if a[1] == ARR and b[1] in num:
            return ('(npAS (· %s ·) %s %s)' % (op, paren(a[0]), paren(self.rat(node, b))), ARR)
        if a[1] == ARR and b[1] == ARR:
            return ('(npAA (· %s ·) %s %s)' % (op, paren(a[0]), paren(b[0])), ARR)
        if op == '+' and a[1][0] == 'list' and a[1] == b[1]:
            return ('(%s ++ %s)' % (a[0], b[0]), a[1])
        self.err(node, 'operator %s on %s and %s' % (op, a[1], b[1]))

    # ---- conditions -----------------------------------------------------------------------------------------------
    def cond(self, node, env, ind):
        if isinstance(node, ast.BoolOp):
            op = ' ∧ ' if isinstance(node.op, ast.And) else ' ∨ '
            return '(' + op.join(self.cond(v, env, ind) for v in node.values) + ')'
        if isinstance(node, ast.UnaryOp) and isinstance(node.op, ast.Not):
            return '(¬ %s)' % self.cond(node.operand, env, ind)
        if isinstance(node, ast.Compare):
            parts, left = [], node.left
            for op, right in zip(node.ops, node.comparators):
                parts.append(self.cmp1(node, op, left, right, env, ind))
                left = right
            return parts[0] if len(parts) == 1 else '(' + ' ∧ '.join(parts) + ')'
        v = self.expr(node, env, ind)
        if v[1] == BOOL:
            return '(%s = true)' % v[0]
        if v[1] == PROP:
            return v[0]
        self.err(node, 'not a condition (type %s): truthiness of numbers / objects is not supported' % (v[1], ))

    def cmp1(self, node, op, left, right, env, ind):
        a, b = self.expr(left, env, ind), self.expr(right, env, ind)
        if isinstance(op, (ast.Is, ast.IsNot)):
            sym = '=' if isinstance(op, ast.Is) else '≠'
            if a[1] == ELEM and b[1] == ELEM:       # identity of mesh elements = equal `glob_idx`
                self.stats.bump('identity_tests')
                return '(%s.id %s %s.id)' % (paren(a[0]), sym, paren(b[0]))
            if a[1] == PIECE and b[1] == PIECE:     # identity of parametrisation pieces
                self.stats.bump('identity_tests')
                return '(%s %s %s)' % (a[0], sym, b[0])
            self.err(node, '`is` between %s and %s' % (a[1], b[1]))
        sym = {ast.Eq: '=', ast.NotEq: '≠', ast.Lt: '<', ast.LtE: '≤', ast.Gt: '>', ast.GtE: '≥'}.get(type(op))
        if sym is None:
            self.err(node, 'unsupported comparison operator')
        if a[1] == PIECE and b[1] == PIECE:
            if sym not in ('=', '≠'):
                self.err(node, 'order comparison of parametrisation objects')
            # the parametrisation classes define no `__eq__`: `==` is identity
            self.stats.bump('identity_tests')
            return '(%s %s %s)' % (a[0], sym, b[0])
        ints = (NAT, ('lit', ))
        if a[1] in ints and b[1] in ints:
            return '(%s %s %s)' % (self.nat(node, a), sym, self.nat(node, b))
        return '(%s %s %s)' % (self.rat(node, a), sym, self.rat(node, b))

    # ---- calls ----------------------------------------------------------------------------------------------------
    def args_of(self, node, env, ind):
        """positional arguments with `*elem.space_interval` / `*elem.time_interval` expanded"""
        out = []
        for a in node.args:
            if isinstance(a, ast.Starred):
                v = self.expr(a.value, env, ind)
                if v[1] != TTuple(RAT, RAT):
                    self.err(node, 'only `*<interval>` is supported')
                parts = self._split_tuple(v[0])
                out += [(p, RAT) for p in parts]
                self.stats.bump('star_arguments')
            else:
                out.append(self.expr(a, env, ind))
        return out

    def closure_args(self, node, arg, env):
        if not (isinstance(arg, ast.Name) and arg.id in self.closures):
            self.err(node, 'the first argument must be a local function with a declared text')
        return [env[c][0] for c in self.closures[arg.id]]

    def call(self, node, env, ind):
        f = node.func
        if any(k.arg is None for k in node.keywords):
            self.err(node, '** arguments are not supported')
        text = ast.unparse(f)
        if isinstance(f, ast.Name):
            name = f.id
            if name in ('max', 'min') and len(node.args) == 2 and not node.keywords:
                a, b = self.expr(node.args[0], env, ind), self.expr(node.args[1], env, ind)
                return ('(%s %s %s)' % (name, paren(self.rat(node, a)), paren(self.rat(node, b))), RAT)
            if name == 'float' and len(node.args) == 1 and not node.keywords:
                v = self.expr(node.args[0], env, ind)
                return (self.rat(node, v), RAT)
            if name == 'len' and len(node.args) == 1 and not node.keywords:
                v = self.expr(node.args[0], env, ind)
                if v[1][0] == 'list':
                    return ('%s.length' % paren(v[0]), NAT)
                if v[1] == ARR:
                    return ('(npLen %s)' % paren(v[0]), NAT)
                self.err(node, 'len of %s' % (v[1], ))
            if name == 'sqrt' and len(node.args) == 1 and not node.keywords:
                v = self.expr(node.args[0], env, ind)
                return ('(%s %s)' % (self.use_ext('sqrt'), paren(self.rat(node, v))), RAT)
            if name == 'enumerate' and len(node.args) == 1 and not node.keywords:
                v = self.expr(node.args[0], env, ind)
                et = RAT if v[1] == ARR else (v[1][1] if v[1][0] == 'list' else None)
                if et is None:
                    self.err(node, 'enumerate of %s' % (v[1], ))
                return ('(enumerate %s)' % paren(v[0]), TList(TTuple(NAT, et)))
            if name == 'zip' and len(node.args) == 2 and not node.keywords:
                a, b = node.args
                if isinstance(a, ast.Call) and ast.unparse(a.func) == 'range' and len(a.args) == 1:
                    n = self.expr(a.args[0], env, ind)
                    v = self.expr(b, env, ind)
                    if v[1][0] != 'list':
                        self.err(node, 'zip with %s' % (v[1], ))
                    return ('(List.zip (List.range %s) %s)' % (paren(self.nat(node, n)), paren(v[0])), TList(TTuple(NAT, v[1][1])))
                self.err(node, 'only zip(range(n), l) is supported')
            if name == 'list' and len(node.args) == 1 and not node.keywords:
                return self.pool_map(node, node.args[0], env, ind)
            if name in env and env[name][1] == RESID:
                if len(node.args) != 3 or node.keywords:
                    self.err(node, 'the residual takes (t, x_hat, gamma)')
                t, x, g = [self.expr(a, env, ind) for a in node.args]
                if t[1] != ARR or x[1] != ARR or g[1] != PIECE:
                    self.err(node, 'residual called on %s, %s, %s' % (t[1], x[1], g[1]))
                self.stats.bump('residual_calls')
                return ('(npMapR %s %s %s %s)' % (env[name][0], paren(t[0]), paren(x[0]), paren(g[0])), ARR)
            self.err(node, 'call of unknown function')
        if text == 'math.fsum' and len(node.args) == 1 and not node.keywords:
            v = self.expr(node.args[0], env, ind)
            if v[1] != TList(RAT):
                self.err(node, 'math.fsum of %s' % (v[1], ))
            return ('(fsum %s)' % paren(v[0]), RAT)
        if text == 'mp.cpu_count' and not node.args and not node.keywords:
            return (self.use_ext('cpu_count'), NAT)
        if text.startswith('np.'):
            return self.np_call(node, f.attr, env, ind)
        if isinstance(f, ast.Attribute):
            # edges / neighbours
            if f.attr == 'edges_axis' and len(node.args) == 1 and not node.keywords:
                e, ax = self.expr(f.value, env, ind), self.expr(node.args[0], env, ind)
                if e[1] != ELEM:
                    self.err(node, 'edges_axis of %s' % (e[1], ))
                self.stats.bump('edge_walks')
                return self.hoist(ind, 'edgesAxis %s %s' % (paren(e[0]), paren(self.nat(node, ax))), TList(EDGE))
            if f.attr == 'neighbour_elements' and not node.args and not node.keywords:
                e = self.expr(f.value, env, ind)
                if e[1] != EDGE:
                    self.err(node, 'neighbour_elements of %s' % (e[1], ))
                if 'self' not in env:
                    self.err(node, 'neighbour_elements outside a method (the mesh is `self.bdr_mesh`)')
                self.stats.bump('neighbour_lists')
                return ('(neighbourElements %s.bdr_mesh %s)' % (env['self'][0], paren(e[0])), TList(ELEM))
            # seminorm routines of self.slobodeckij
            if ast.unparse(f.value) == 'self.slobodeckij' and 'self' in env:
                return self.seminorm_call(node, f.attr, env, ind)
            # pool map without `list(...)`
            if f.attr == 'map':
                self.err(node, 'the result of a pool `map` must be wrapped in `list(…)`')
            # methods of the estimator
            recv = self.expr(f.value, env, ind) if not (isinstance(f.value, ast.Name) and f.value.id == 'self' and 'self' not in env) else None
            if recv is not None and recv[1] == SELF:
                return self.method_call(node, recv, f.attr, env, ind)
        self.err(node, 'unsupported call')

    def seminorm_call(self, node, name, env, ind):
        if node.keywords or not node.args:
            self.err(node, 'keyword arguments of a seminorm routine')
        cap = self.closure_args(node, node.args[0], env)
        rest = ast.Call(func=node.func, args=node.args[1:], keywords=[])
        args = self.args_of(rest, env, ind)
        sig = {'seminorm_h_1_2': [RAT, RAT, PIECE], 'seminorm_h_1_2_pw': [RAT, RAT, PIECE, RAT, RAT, PIECE], 'seminorm_h_1_4': [RAT, RAT]}
        want_cap = {'seminorm_h_1_2': ['residual', 't'], 'seminorm_h_1_2_pw': ['residual', 't'], 'seminorm_h_1_4': ['residual', 'x_hat', 'gamma']}
        if name not in sig:
            self.err(node, 'unknown routine of self.slobodeckij')
        if self.closures[node.args[0].id] != want_cap[name]:
            self.err(node, 'the routine expects a closure over %s' % want_cap[name])
        if len(args) != len(sig[name]):
            self.err(node, '%s takes %d arguments after the integrand' % (name, len(sig[name])))
        codes = [paren(self.coerce(node, a, t)) for a, t in zip(args, sig[name])]
        self.stats.bump('seminorm_calls')
        return self.hoist(ind, '%s %s %s' % (self.use_ext(name), ' '.join(paren(c) for c in cap), ' '.join(codes)), RAT)

    def bind_args(self, node, pnames, args, keywords):
        vals = {}
        if len(args) > len(pnames):
            self.err(node, 'too many arguments')
        for p, a in zip(pnames, args):
            vals[p] = a
        for k in keywords:
            if k.arg not in pnames or k.arg in vals:
                self.err(node, 'unexpected keyword argument %s' % k.arg)
            vals[k.arg] = k.value
        return vals

    def method_call(self, node, recv, name, env, ind):
        if name in PRIVATE_PARAMS or ('_%s%s' % (CLASS, name)) in PRIVATE_PARAMS:
            if recv[0] != 'self':
                self.err(node, 'private method of another object')
            lean = PRIVATE_PARAMS[name]
            _, params, ret = METHODS[name]
            args = self.args_of(node, env, ind)
            if node.keywords or len(args) != len(params):
                self.err(node, '%s takes %d positional arguments' % (name, len(params)))
            codes = [paren(self.coerce(node, a, t)) for a, (_, t) in zip(args, params)]
            self.stats.bump('private_method_calls')
            return self.hoist(ind, '%s %s' % (self.use_ext(lean), ' '.join(codes)), ret)
        if name not in METHODS:
            self.err(node, 'call of a method that is not translated' + (' (%s)' % NOT_TRANSLATED[name] if name in NOT_TRANSLATED else ''))
        if name not in self.done:
            self.err(node, 'call of a method that is translated later')
        d = self.done[name]
        if any(isinstance(a, ast.Starred) for a in node.args):
            self.err(node, 'star arguments of a method call')
        vals = self.bind_args(node, [p for p, _ in d.params], node.args, node.keywords)
        codes = []
        for p, t in d.params:
            if p not in vals:
                if p in BOOL_DEFAULTS:
                    codes.append('true' if BOOL_DEFAULTS[p] else 'false')
                    continue
                self.err(node, 'argument %s is missing' % p)
            codes.append(paren(self.coerce(node, self.expr(vals[p], env, ind), t)))
        self.ext |= d.ext
        code = 'EstimatorGen.%s %s %s' % (d.lean, ' '.join([paren(recv[0])] + [e for e in EXT_NAMES if e in d.ext]), ' '.join(codes))
        self.stats.bump('method_calls')
        if d.exc:
            return self.hoist(ind, code, d.ret)
        return ('(%s)' % code, d.ret)

    def worker_value(self, node, fn, env):
        """a module worker function as a value: its globals are passed explicitly"""
        if not (isinstance(fn, ast.Name) and fn.id in WORKERS):
            self.err(node, 'only the declared worker functions can be mapped over a pool')
        if fn.id not in self.done:
            self.err(node, 'worker function translated later')
        d = self.done[fn.id]
        for g, (lean, _) in GLOBALS.items():
            if lean not in env:
                self.err(node, 'the module global %s is not set (globals()[…] = …) before the pool is used' % g)
        self.ext |= d.ext
        return '(EstimatorGen.%s %s)' % (d.lean, ' '.join([lean for lean, _ in GLOBALS.values()] + [e for e in EXT_NAMES if e in d.ext])), d.ret

    def pool_map(self, node, inner, env, ind):
        """`list(<pool>.map(f, range(N), chunk))`"""
        ok = isinstance(inner, ast.Call) and isinstance(inner.func, ast.Attribute) and inner.func.attr == 'map' and not inner.keywords \
            and len(inner.args) == 3
        if ok:
            pool = inner.func.value
            if isinstance(pool, ast.Name) and pool.id in env and env[pool.id][1] == POOL:
                pass
            elif isinstance(pool, ast.Call) and ast.unparse(pool.func) == 'mp.Pool' and len(pool.args) == 1 and not pool.keywords:
                self.nat(node, self.expr(pool.args[0], env, ind))   # the size of the pool does not enter the model
            else:
                ok = False
        if not ok:
            self.err(node, 'only list(<pool>.map(f, range(N), chunk)) is supported')
        f, rng, chunk = inner.args
        if not (isinstance(rng, ast.Call) and ast.unparse(rng.func) == 'range' and len(rng.args) == 1 and not rng.keywords):
            self.err(node, 'the pool maps over range(N)')
        fcode, ret = self.worker_value(node, f, env)
        n = self.nat(node, self.expr(rng.args[0], env, ind))
        c = self.nat(node, self.expr(chunk, env, ind))
        self.stats.bump('pool_maps')
        return self.hoist(ind, 'poolMap %s %s %s %s' % (self.use_ext('pmap'), fcode, paren(n), paren(c)), TList(ret))

    def np_call(self, node, name, env, ind):
        args, kws = node.args, node.keywords
        if kws or any(isinstance(a, ast.Starred) for a in args):
            self.err(node, 'keyword / star arguments of np.%s' % name)
        self.stats.bump('numpy_calls')
        if name == 'zeros' and len(args) == 1:
            a = args[0]
            if isinstance(a, ast.Attribute) and a.attr == 'shape':
                v = self.expr(a.value, env, ind)
                if v[1] != ARR:
                    self.err(node, 'np.zeros(<1-D array>.shape) expected')
                return ('(List.replicate (npLen %s) (0 : Rat))' % paren(v[0]), ARR)
            if isinstance(a, ast.Tuple) and len(a.elts) == 2 and isinstance(a.elts[1], ast.Constant) and a.elts[1].value == 2:
                n = self.expr(a.elts[0], env, ind)
                return ('(zeros2 %s)' % paren(self.nat(node, n)), ARRAY2)
            self.err(node, 'np.zeros of this shape')
        if name in ('array', 'asarray') and len(args) == 1:
            v = self.expr(args[0], env, ind)
            if v[1] == ARR:
                return ('(npArray %s)' % paren(v[0]), ARR)
            if v[1] == ARRAY2:       # a list of pairs of numbers becomes the `(N, 2)` array with these rows
                return (v[0], ARRAY2)
            self.err(node, 'np.%s of %s' % (name, v[1]))
        if name == 'dot' and len(args) == 2:
            a, b = self.expr(args[0], env, ind), self.expr(args[1], env, ind)
            if a[1] != ARR or b[1] != ARR:
                self.err(node, 'np.dot of %s and %s' % (a[1], b[1]))
            return ('(npDot %s %s)' % (paren(a[0]), paren(b[0])), RAT)
        if name == 'allclose' and len(args) == 2:
            a, b = args
            if not (isinstance(a, ast.Call) and isinstance(b, ast.Call) and isinstance(a.func, ast.Name) and isinstance(b.func, ast.Name)
                    and a.func.id == b.func.id and a.func.id in env and env[a.func.id][1] == PIECE and len(a.args) == 1 and len(b.args) == 1
                    and not a.keywords and not b.keywords):
                self.err(node, 'only np.allclose(gamma(a), gamma(b)) for one parametrisation `gamma` is supported')
            u, v = self.expr(a.args[0], env, ind), self.expr(b.args[0], env, ind)
            return ('(%s %s %s %s = true)' % (self.use_ext('allclose'), env[a.func.id][0], paren(self.rat(node, u)), paren(self.rat(node, v))), PROP)
        self.err(node, 'np.%s is not supported' % name)

    # ---- comprehensions ---------------------------------------------------------------------------------------------
    def comp_target(self, node, gen, env, ind):
        if gen.ifs or gen.is_async:
            self.err(node, 'comprehension with conditions')
        it = self.expr(gen.iter, env, ind)
        if it[1][0] != 'list':
            self.err(node, 'comprehension over %s' % (it[1], ))
        et = it[1][1]
        env2 = dict(env)
        if isinstance(gen.target, ast.Name):
            n = self.name_ok(node, gen.target.id)
            env2[n] = (n, et)
            return it, n, env2
        if isinstance(gen.target, ast.Tuple) and all(isinstance(e, ast.Name) for e in gen.target.elts) and et[0] == 'tuple' \
                and len(et[1]) == len(gen.target.elts) == 2:
            for k, e in enumerate(gen.target.elts):
                self.name_ok(node, e.id)
                env2[e.id] = ('z.%d' % (k + 1), et[1][k])
            return it, 'z', env2
        self.err(node, 'unsupported comprehension target')

    def listcomp(self, node, env, ind):
        if len(node.generators) != 1:
            self.err(node, 'nested comprehension')
        it, var, env2 = self.comp_target(node, node.generators[0], env, ind)
        save, self.lines = self.lines, []
        v = self.expr(node.elt, env2, ind + 2)
        body, self.lines = self.lines, save
        self.stats.bump('comprehensions')
        if v[1] == ('lit', ):
            v = (self.rat(node, v), RAT)
        if not body:
            return ('(%s.map fun %s => %s)' % (paren(it[0]), var, v[0]), TList(v[1]))
        # the element expression raises / calls a method with assertions: `mapM`, in the order of the list
        t = self.tmp()
        self.emit(ind, 'let %s ← %s.mapM fun %s => do' % (t, paren(it[0]), var))
        self.lines += body
        self.emit(ind + 2, 'pure %s' % paren(v[0]))
        return (t, TList(v[1]))

    def dictcomp(self, node, env, ind):
        if len(node.generators) != 1:
            self.err(node, 'nested comprehension')
        it, var, env2 = self.comp_target(node, node.generators[0], env, ind)
        n0 = len(self.lines)
        k, v = self.expr(node.key, env2, ind), self.expr(node.value, env2, ind)
        if len(self.lines) != n0:
            self.err(node, 'dictionary comprehension with effects')
        self.stats.bump('comprehensions')
        return ('(dictOf (%s.map fun %s => (%s, %s)))' % (paren(it[0]), var, self.nat(node, k), self.nat(node, v)), DICT)

    # ---- statements -------------------------------------------------------------------------------------------------
    @staticmethod
    def assigned_names(stmts):
        out = []
        for st in stmts:
            for n in ast.walk(st):
                if isinstance(n, ast.Assign):
                    for t in n.targets:
                        for s in ast.walk(t):
                            if isinstance(s, ast.Name) and isinstance(s.ctx, ast.Store):
                                out.append(s.id)
                            if isinstance(s, ast.Subscript) and isinstance(s.value, ast.Name):
                                out.append(s.value.id)
                elif isinstance(n, ast.AugAssign):
                    t = n.target
                    out.append(t.id if isinstance(t, ast.Name) else (t.value.id if isinstance(t, ast.Subscript) and isinstance(t.value, ast.Name) else '?'))
                elif isinstance(n, ast.Call) and isinstance(n.func, ast.Attribute) and n.func.attr in ('append', 'extend') \
                        and isinstance(n.func.value, ast.Name):
                    out.append(n.func.value.id)
        return out

    def declare(self, node, env, name, code, typ, ind):
        self.name_ok(node, name)
        if typ == ('lit', ):
            code, typ = self.rat(node, (code, typ)), RAT
        if typ == NONE and name in getattr(self, 'branch_bound', ()) and name not in env:
            env[name] = ('none', NONE)     # `x = None` in a branch of a conditional that binds `x` (an optional value)
            self.stats.bump('assignments')
            return
        if typ in (PROP, NONE, POOL) or typ[0] == 'mat':
            self.err(node, 'assignment of a value of type %s' % (typ, ))
        if name in env:
            if env[name][1] != typ:
                self.err(node, 'the variable `%s` changes its type (%s -> %s)' % (name, env[name][1], typ))
            if name not in self.multi or env[name][0] != name:
                self.err(node, 'assignment to the parameter / loop variable `%s`' % name)
            self.emit(ind, '%s := %s' % (name, code))
        else:
            self.emit(ind, 'let %s%s : %s := %s' % ('mut ' if name in self.multi else '', name, lean_type(typ), code))
            env[name] = (name, typ)
        self.stats.bump('assignments')

    def block(self, stmts, env, ind, last_returns=False):
        for k, st in enumerate(stmts):
            self.stmt(st, stmts[k + 1:], env, ind, last=last_returns and k == len(stmts) - 1)

    def is_print(self, st):
        return isinstance(st, ast.Expr) and isinstance(st.value, ast.Call) and isinstance(st.value.func, ast.Name) and st.value.func.id == 'print'

    def stmt(self, st, rest, env, ind, last=False):
        if isinstance(st, ast.Expr) and isinstance(st.value, ast.Constant) and isinstance(st.value.value, str):
            return
        if self.is_print(st):
            self.stats.bump('prints')
            return
        if isinstance(st, ast.Global):
            for n in st.names:
                if n not in GLOBALS:
                    self.err(st, 'undeclared module global %s' % n)
                if self.is_method:
                    self.err(st, '`global` inside a method')
                env[n] = GLOBALS[n]
            self.stats.bump('global_declarations')
            return
        if isinstance(st, ast.Return):
            if not last or st.value is None:
                self.err(st, '`return` must be the last statement of the function and return a value')
            v = self.expr(st.value, env, ind)
            self.emit(ind, 'return %s' % self.coerce(st, v, self.ret))
            self.stats.bump('returns')
            return
        if isinstance(st, ast.Assert):
            key = (self.pyname, ast.unparse(st.test))
            if st.msg is not None or key not in ASSERT_TAGS:
                self.err(st, 'assertion without a known label')
            c = self.cond(st.test, env, ind)
            self.emit(ind, 'assertThat %s "assert:%s"' % (c, ASSERT_TAGS[key]))
            self.stats.bump('asserts')
            return
        if isinstance(st, ast.Continue):
            if not self.loop_depth:
                self.err(st, 'continue outside a loop')
            self.emit(ind, 'continue')
            return
        if isinstance(st, ast.FunctionDef):
            return self.local_def(st, env)
        if isinstance(st, ast.Assign):
            return self.assign_stmt(st, env, ind)
        if isinstance(st, ast.AugAssign):
            return self.augassign(st, env, ind)
        if isinstance(st, ast.Expr):
            return self.expr_stmt(st, env, ind)
        if isinstance(st, ast.For):
            return self.for_stmt(st, env, ind)
        if isinstance(st, ast.With):
            return self.with_stmt(st, rest, env, ind)
        if isinstance(st, ast.If):
            return self.if_stmt(st, rest, env, ind)
        self.err(st, 'unsupported statement')

    def local_def(self, st, env):
        key = (self.pyname, st.name)
        if key not in CLOSURES:
            self.err(st, 'local function without a declared text (not translated, not skipped)')
        text, caps = CLOSURES[key]
        if ast.unparse(st) != text:
            self.err(st, 'the local function differs from its declared text `%s`' % ' '.join(text.split()))
        for c in caps:
            if c not in env:
                self.err(st, 'the local function captures the unknown name %s' % c)
        self.closures[st.name] = caps
        self.stats.bump('closures')

    def assign_stmt(self, st, env, ind):
        if len(st.targets) != 1:
            self.err(st, 'chained assignment')
        t = st.targets[0]
        if isinstance(t, ast.Name):
            if isinstance(st.value, ast.List) and not st.value.elts:
                if t.id not in LOCAL_LIST_TYPES:
                    self.err(st, 'empty list without a declared element type')
                return self.declare(st, env, t.id, '[]', LOCAL_LIST_TYPES[t.id], ind)
            v = self.expr(st.value, env, ind)
            return self.declare(st, env, t.id, v[0], v[1], ind)
        if isinstance(t, ast.Subscript):
            # globals()['__x'] = v
            if ast.unparse(t.value) == 'globals()' and isinstance(t.slice, ast.Constant) and t.slice.value in GLOBALS:
                lean, typ = GLOBALS[t.slice.value]
                v = self.expr(st.value, env, ind)
                if lean in env:
                    self.err(st, 'module global set twice')
                self.emit(ind, 'let %s : %s := %s' % (lean, lean_type(typ), self.coerce(st, v, typ)))
                env[lean] = (lean, typ)
                self.stats.bump('global_stores')
                return
            # v[i] = e
            if isinstance(t.value, ast.Name) and t.value.id in env and env[t.value.id][1] == ARR and t.value.id in self.multi:
                i, e = self.expr(t.slice, env, ind), self.expr(st.value, env, ind)
                n = t.value.id
                self.emit(ind, '%s ← listSet %s %s %s' % (n, n, paren(self.nat(st, i)), paren(self.rat(st, e))))
                self.stats.bump('array_stores')
                return
        self.err(st, 'unsupported assignment target')

    def augassign(self, st, env, ind):
        t = st.target
        if not isinstance(st.op, ast.Add):
            self.err(st, 'unsupported augmented assignment')
        if isinstance(t, ast.Name) and t.id in env and t.id in self.multi:
            cur = env[t.id]
            v = self.expr(st.value, env, ind)
            if cur[1][0] == 'list' and v[1] == cur[1]:      # `l += m` extends the list object; no alias of `l` exists in the fragment
                self.emit(ind, '%s := %s ++ %s' % (t.id, t.id, v[0]))
            elif cur[1] == RAT:
                self.emit(ind, '%s := %s + %s' % (t.id, t.id, self.rat(st, v)))
            else:
                self.err(st, '`+=` on %s and %s' % (cur[1], v[1]))
            self.stats.bump('augmented_assignments')
            return
        if isinstance(t, ast.Subscript) and isinstance(t.value, ast.Name) and t.value.id in env and env[t.value.id][1] == ARRAY2 \
                and isinstance(t.slice, ast.Tuple) and len(t.slice.elts) == 2 and isinstance(t.slice.elts[1], ast.Constant) \
                and t.slice.elts[1].value in (0, 1) and t.value.id in self.multi:
            n = t.value.id
            i = self.expr(t.slice.elts[0], env, ind)
            e = self.expr(st.value, env, ind)
            self.emit(ind, '%s ← addAt2 %s %s %d %s' % (n, n, paren(self.nat(st, i)), t.slice.elts[1].value, paren(self.rat(st, e))))
            self.stats.bump('array_stores')
            return
        self.err(st, 'unsupported augmented assignment')

    def expr_stmt(self, st, env, ind):
        c = st.value
        if isinstance(c, ast.Call) and isinstance(c.func, ast.Attribute) and c.func.attr == 'append' and isinstance(c.func.value, ast.Name) \
                and len(c.args) == 1 and not c.keywords:
            n = c.func.value.id
            if n not in env or env[n][1][0] != 'list' or n not in self.multi:
                self.err(st, 'append to something that is not a local list')
            v = self.expr(c.args[0], env, ind)
            self.emit(ind, '%s := %s ++ [%s]' % (n, n, self.coerce(st, v, env[n][1][1])))
            self.stats.bump('appends')
            return
        self.err(st, 'unsupported expression statement')

    def for_stmt(self, st, env, ind):
        if st.orelse:
            self.err(st, 'for ... else')
        it = self.expr(st.iter, env, ind)
        if it[1][0] != 'list':
            self.err(st, 'iteration over a value of type %s' % (it[1], ))
        et = it[1][1]
        used = {n.id for n in ast.walk(st.iter) if isinstance(n, ast.Name)}
        clash = used & set(self.assigned_names(st.body))
        if clash:
            self.err(st, 'the loop body modifies the iterated variable(s) %s' % sorted(clash))
        env2 = dict(env)
        if isinstance(st.target, ast.Name):
            pat = self.name_ok(st, st.target.id)
            env2[pat] = (pat, et)
        elif isinstance(st.target, ast.Tuple) and all(isinstance(e, ast.Name) for e in st.target.elts) and et[0] == 'tuple' \
                and len(et[1]) == len(st.target.elts):
            names = [self.name_ok(st, e.id) for e in st.target.elts]
            if len(set(names)) != len(names):
                self.err(st, 'same name twice')
            pat = '(%s)' % ', '.join(names)
            for n, t in zip(names, et[1]):
                env2[n] = (n, t)
        else:
            self.err(st, 'unsupported loop target')
        for n in (set(env2) - set(env)) & self.multi:
            self.err(st, 'the loop variable %s is assigned' % n)
        self.emit(ind, 'for %s in %s do' % (pat, it[0]))
        self.stats.bump('for_loops')
        self.loop_depth += 1
        saved_closures = dict(self.closures)
        self.block(st.body, env2, ind + 2)
        self.closures = saved_closures
        self.loop_depth -= 1
        # names first bound inside the body are local to one iteration in the generated code: unknown after the loop

    def with_stmt(self, st, rest, env, ind):
        if len(st.items) != 1:
            self.err(st, 'with several items')
        it = st.items[0]
        c = it.context_expr
        if not (isinstance(c, ast.Call) and ast.unparse(c.func) == 'mp.Pool' and len(c.args) == 1 and not c.keywords
                and isinstance(it.optional_vars, ast.Name)):
            self.err(st, 'only `with mp.Pool(n) as p:` is supported')
        self.nat(st, self.expr(c.args[0], env, ind))
        p = self.name_ok(st, it.optional_vars.id)
        if p in env:
            self.err(st, 'the pool variable shadows a local')
        env[p] = (p, POOL)
        self.stats.bump('pool_blocks')
        self.block(st.body, env, ind)
        del env[p]

    # ---- if -------------------------------------------------------------------------------------------------------
    def leaf_branches(self, st):
        """the branches of an if / elif / else chain: [(test or None, body)]"""
        out = [(st.test, st.body)]
        if len(st.orelse) == 1 and isinstance(st.orelse[0], ast.If):
            out += self.leaf_branches(st.orelse[0])
        elif st.orelse:
            out.append((None, st.orelse))
        return out

    def if_stmt(self, st, rest, env, ind):
        text = ast.unparse(st.test)
        if text == 'self.cache_dir is not None':
            # ASSUMPTION of the object model: `cache_dir` is None; the block is dead code (it is named, not translated)
            if st.orelse:
                self.err(st, 'cache block with an else branch')
            self.stats.bump('cache_blocks_not_modelled')
            return
        # `if <optional> is None: … else / elif …`
        t = st.test
        if isinstance(t, ast.Compare) and len(t.ops) == 1 and isinstance(t.ops[0], ast.Is) and isinstance(t.left, ast.Name) \
                and isinstance(t.comparators[0], ast.Constant) and t.comparators[0].value is None:
            n = t.left.id
            if n not in env or env[n][1][0] != 'opt' or n in self.multi or not st.orelse:
                self.err(st, '`is None` is supported for an optional parameter, with an else / elif branch')
            self.emit(ind, 'match %s with' % n)
            self.emit(ind, '| none =>')
            e1 = dict(env)
            del e1[n]
            self.block(st.body, e1, ind + 2)
            self.emit(ind, '| some %s =>' % n)
            e2 = dict(env)
            e2[n] = (n, env[n][1][1])
            self.block(st.orelse, e2, ind + 2)
            self.stats.bump('none_tests')
            return
        branches = self.leaf_branches(st)
        rest_names = {n.id for s in rest for n in ast.walk(s) if isinstance(n, ast.Name)}
        fresh = []
        for _, body in branches:
            for n in self.assigned_names(body):
                if n not in env and n in rest_names and n not in fresh:
                    fresh.append(n)
        if fresh:
            return self.if_assigning(st, branches, fresh, env, ind, set(self.assigned_names(rest)))
        c = self.cond(st.test, env, ind)
        self.stats.bump('branches')
        self.emit(ind, 'if %s then' % c)
        self.block(st.body, dict(env), ind + 2)
        if st.orelse:
            self.emit(ind, 'else')
            self.block(st.orelse, dict(env), ind + 2)

    def if_assigning(self, st, branches, fresh, env, ind, later=()):
        """an if / elif / else chain whose branches bind the fresh variables `fresh` (used after it): a conditional that returns
        their values; every branch must bind all of them (Python: `UnboundLocalError` otherwise)"""
        if branches[-1][0] is not None:
            self.err(st, 'the variables %s are bound by an `if` without `else` and used after it' % fresh)
        r = self.tmp('r')
        outs, bufs = [], []
        for test, body in branches:
            save, self.lines = self.lines, []
            e = dict(env)
            c = self.cond(test, env, ind) if test is not None else None
            if self.lines:
                self.err(st, 'a condition with effects')
            self.branch_bound = set(fresh)
            saved_multi = set(self.multi)
            names_here = self.assigned_names(body)
            self.multi -= {n for n in fresh if names_here.count(n) <= 1}
            self.block(body, e, ind + 4)
            self.multi = saved_multi
            self.branch_bound = set()
            for n in fresh:
                if n not in e:
                    self.err(st, 'the variable %s is not bound in every branch' % n)
            outs.append([e[n] for n in fresh])
            bufs.append((c, self.lines))
            self.lines = save
        types = []
        for k, n in enumerate(fresh):
            ts = [o[k][1] for o in outs]
            base = [t for t in ts if t != NONE]
            if not base or any(t != base[0] for t in base):
                self.err(st, 'the variable %s has different types in the branches: %s' % (n, ts))
            types.append(TOpt(base[0]) if NONE in ts else base[0])
        rt = TTuple(*types) if len(types) > 1 else types[0]
        self.emit(ind, 'let %s : %s ← do' % (r, lean_type(rt)))
        for k, (c, buf) in enumerate(bufs):
            if c is None:
                self.emit(ind + 2, 'else')
            else:
                self.emit(ind + 2, ('if %s then' if k == 0 else 'else if %s then') % c)
            self.lines += buf
            vals = [self.coerce(st, o, t) for o, t in zip(outs[k], types)]
            self.emit(ind + 4, 'pure %s' % ('(%s)' % ', '.join(vals) if len(vals) > 1 else paren(vals[0])))
        self.stats.bump('branches', len(bufs) - 1)
        self.stats.bump('branch_bound_variables', len(fresh))
        for k, (n, t) in enumerate(zip(fresh, types)):
            self.name_ok(st, n)
            proj = r if len(fresh) == 1 else r + ''.join('.2' for _ in range(k)) + ('.1' if k < len(fresh) - 1 else '')
            self.emit(ind, 'let %s%s : %s := %s' % ('mut ' if n in later else '', n, lean_type(t), proj))
            env[n] = (n, t)


# ---- functions ------------------------------------------------------------------------------------------------------
def check_signature(src, fn, pyname, want, is_method):
    a = fn.args
    if a.vararg or a.kwarg or a.kwonlyargs or a.posonlyargs or fn.decorator_list or fn.returns is not None:
        raise TranslationError('%s: unsupported parameter kinds / decorators / annotations' % pyname)
    names = [x.arg for x in a.args]
    if any(x.annotation is not None for x in a.args):
        raise TranslationError('%s: annotated parameters' % pyname)
    if is_method:
        if not names or names[0] != 'self':
            raise TranslationError('%s: first parameter is not self' % pyname)
        names = names[1:]
    if names != [p for p, _ in want]:
        raise TranslationError('%s: parameters %s (expected %s)' % (pyname, names, [p for p, _ in want]))
    defaults = ([None] * (len(a.args) - len(a.defaults)) + list(a.defaults))[(1 if is_method else 0):]
    for n, d in zip(names, defaults):
        if n in BOOL_DEFAULTS:
            if not (isinstance(d, ast.Constant) and d.value is BOOL_DEFAULTS[n]):
                raise TranslationError('%s: parameter %s must have the default %s' % (pyname, n, BOOL_DEFAULTS[n]))
        elif d is not None:
            raise TranslationError('%s: default value of parameter %s is not supported' % (pyname, n))


def gen_function(src, stats, pyname, done):
    is_method = pyname in METHODS
    fn = src.methods[pyname] if is_method else src.functions[pyname]
    if is_method:
        lean, params, ret = METHODS[pyname]
    else:
        lean, params, ret = pyname, [('i', NAT)], WORKERS[pyname]
    check_signature(src, fn, pyname, params, is_method)
    tr = Tr(src, stats, pyname, done, is_method)
    tr.ret = ret
    names = tr.assigned_names(fn.body)
    tr.multi = {n for n in names if names.count(n) > 1}
    env = {}
    if is_method:
        env['self'] = ('self', SELF)
    for p, t in params:
        tr.name_ok(fn, p)
        if p in tr.multi:
            raise TranslationError('%s: the parameter %s is assigned' % (pyname, p))
        env[p] = (p, t)
    body = [s for i, s in enumerate(fn.body)
            if not (i == 0 and isinstance(s, ast.Expr) and isinstance(s.value, ast.Constant) and isinstance(s.value.value, str))]
    if not body or not isinstance(body[-1], ast.Return):
        raise TranslationError('%s: the body must end with `return`' % pyname)
    for n in ast.walk(fn):
        if isinstance(n, ast.Return) and n is not body[-1]:
            # the `return` inside the dead cache block is the only other one
            pass
        if isinstance(n, (ast.While, ast.Lambda, ast.Yield, ast.YieldFrom, ast.Await, ast.Nonlocal, ast.Break, ast.ClassDef, ast.Delete,
                          ast.Raise)):
            raise TranslationError('%s line %d: unsupported construct `%s`' % (pyname, n.lineno, src.seg(n)[:80]))
    tr.block(body, env, 2, last_returns=True)
    ext = set(tr.ext)
    ps = []
    if is_method:
        ps.append('(self : ErrorEstimator)')
    else:
        ps += ['(%s : %s)' % (lean_g, lean_type(t)) for lean_g, t in GLOBALS.values()]
    ps += ['(%s : %s)' % (e, ty) for e, ty, _ in EXTERNALS if e in ext]
    ps += ['(%s : %s)' % (p, lean_type(t)) for p, t in params]
    doc = '`%s%s(%s)`' % ('%s.' % CLASS if is_method else '', pyname, ', '.join(p for p, _ in params))
    used = ['`%s` = %s' % (e, what) for e, _, what in EXTERNALS if e in ext]
    if not is_method:
        doc += '; the module globals `__elems`, `__error_estimator`, `__residual` are the parameters `g_elems`, `g_error_estimator`, `g_residual`'
    if used:
        doc += '; parameters: ' + '; '.join(used)
    head = 'def %s %s : Except String %s := do' % (lean, ' '.join(ps), lean_type_p(ret))
    stats.bump('methods' if is_method else 'module_functions')
    done[pyname] = Done(lean, params, ret, True, ext, 'method' if is_method else 'worker')
    return ['/-- %s -/' % doc, head] + tr.lines + ['']


def generate_text(repo):
    src = Source(repo)
    stats = Stats()
    done = {}
    parts = []
    for name in ORDER:
        parts += gen_function(src, stats, name, done)
    for name in NOT_TRANSLATED:
        stats.bump('methods_not_translated')
    out = ['/- GENERATED by translate/estimatorgen.py from src/error_estimator.py -- do not edit. -/',
           'import Stbem.Model.Mesh',
           'import Stbem.Gen.QuadGen',
           'namespace Stbem.Gen.EstimatorGen',
           'open Stbem.Mesh Stbem.Gen.QuadGen',
           '', PRELUDE,
           '/-! ### the translated bodies -/', '']
    out += parts
    out += ['end Stbem.Gen.EstimatorGen', '']
    st = dict(stats.n)
    st['_functions'] = {d.lean: sorted(d.ext) for d in done.values()}
    return '\n'.join(out), st


# what the driver (Driver/EstimatorGenCmd.lean) and the theorems refer to: the generated file is only written when every
# definition is there with the declared external parameters
REQUIRED = {
    'integrate_h_1_2': ['allclose', 'seminorm_h_1_2', 'seminorm_h_1_2_pw'],
    'integrate_h_1_4': ['seminorm_h_1_4'],
    'sobolev_space': ['integrate_h_1_2'],
    'sobolev_time': ['integrate_h_1_4'],
    'weighted_l2': ['sqrt'],
    'MP_estim_l2': ['sqrt'],
    'MP_estim_sobolev_time': ['integrate_h_1_4'],
    'MP_estim_sobolev_space': ['integrate_h_1_2'],
    'estimate_weighted_l2': ['cpu_count', 'pmap', 'sqrt'],
    'estimate_sobolev': ['cpu_count', 'integrate_h_1_2', 'integrate_h_1_4', 'pmap'],
}


def check_required(stats):
    for name, ext in REQUIRED.items():
        got = stats['_functions'].get(name)
        if got != ext:
            raise TranslationError('%s uses the external parameters %s (the driver and the theorems expect %s)' % (name, got, ext))


def generate(repo, gen_dir, write, compiles=None):
    text, stats = generate_text(repo)
    check_required(stats)
    path = os.path.join(gen_dir, 'EstimatorGen.lean')
    try:
        same = open(path).read() == text
    except FileNotFoundError:
        same = False
    if not same and compiles is not None:
        msg = compiles(text)
        if msg:
            raise TranslationError('the generated Lean text does not compile (the previous Gen/EstimatorGen.lean is kept):\n' + msg)
    write(path, text)
    stats['changed'] = int(not same)
    return stats


if __name__ == '__main__':
    sys.path.insert(0, os.path.join(os.path.dirname(os.path.abspath(__file__)), '..'))
    from harness.common import write_if_changed
    gen = os.path.join(os.path.dirname(os.path.abspath(__file__)), '..', 'lean', 'Stbem', 'Gen')
    if len(sys.argv) < 2:
        sys.exit('usage: estimatorgen.py <repo> [--print]')
    if '--print' in sys.argv:
        t, s = generate_text(sys.argv[1])
        print(t)
        print(s, file=sys.stderr)
    else:
        print(generate(sys.argv[1], gen, write_if_changed))
