#!/venv/bin/python
"""Translator: `src/norms.py` (ast) -> lean/Stbem/Gen/NormsGen.lean  (Mathlib-free, executable, imports Gen/QuadGen.lean).

The class `Slobodeckij` is translated statement by statement (or the translation fails):

  * `__init__`            -> structure `Slobodeckij` with one field per `self.<f> = e` (in the order of the source) and
                             `Slobodeckij.init`; the three rule constructors imported from `.quadrature` are EXTERNAL PARAMETERS
                             `Int → Except String QuadScheme1D` (an external call may raise), the classes imported from `.quadrature`
                             (`ProductScheme2D`, `QuadScheme2D`) are the definitions of `Gen/QuadGen.lean` (regenerated from
                             `src/quadrature.py` by translate/quadgen.py in the same run);
  * `seminorm_h_1_4`      -> `Slobodeckij.seminorm_h_1_4`; `h**(1 / 2)` is `powHalf h` for an EXTERNAL PARAMETER `powHalf : Rat → Rat`
                             (the only irrational operation of the file; the hand model `Stbem.Quad.semi14` is the value with this
                             factor split off, Props/NormsTie.lean: generated = `powHalf h * semi14 …` for EVERY `powHalf`);
  * `seminorm_h_1_2`      -> TWO definitions, the method specialised on its optional parameter `gamma=None` (Python types the integrand
                             dynamically: `f(x)` in the one branch, `f(x_hat, gamma)` in the other): `seminorm_h_1_2_flat` (`gamma is None`
                             true: the `if` body, `f : Rat → Rat`) and `seminorm_h_1_2_curve` (false: the `else` body,
                             `f : Rat → Rat × Rat → Rat`); statements outside the `if` are translated in both;
  * `seminorm_h_1_2_pw`   -> `Slobodeckij.seminorm_h_1_2_pw` (assertion failures are errors, the size assertion of
                             `QuadScheme2D.integrate` comes from Gen/QuadGen.lean); the local vectorised function `slo(xy)` is a
                             `let`-bound function on `(2, n)` arrays.

Object model (TRUSTED, written into the generated file, validated by the correspondence runs of harness/checks/C14.py in which the
driver answers every request with the generated functions as well):
  * a parametrisation object `gamma`   = `Gamma` (`id` = the identity of the Python object, `eval` = point evaluation);
                                         `gamma(x)` on a 1-D array = the `(2, n)` array of the images (`npGamma`), on a number = the point;
                                         `gamma_1 is not gamma_2` = `gamma_1.id ≠ gamma_2.id`;
  * the integrand `f(x_hat, gamma)`    = `f : Rat → Rat × Rat → Rat` applied entry-wise to `x̂` and `γ(x̂)` (the integrand uses `gamma`
                                         only through point evaluation at its first argument) (`npMapG`); `f(x)` = entry-wise (`npMap1`);
  * `np.all(p == q)` of two points     = `p = q`;
  * a local `def slo(xy)` handed to `QuadScheme2D.integrate` (which evaluates its integrand entry-wise, Gen/QuadGen.lean `npMap2`)
                                       = its value on the one-column array (`npAt0 (slo (npCol u v))`): a local function built from
                                         entry-wise / column-wise array operations acts column by column;
  * NumPy: the prelude of Gen/QuadGen.lean plus `np.sum(m, axis=0)`, `m1 - m2`, `m ** k` for `(2, n)` arrays (below).

Supported Python fragment (anything else raises TranslationError = broken obligation, nothing is guessed or defaulted): what
translate/quadgen.py supports for expressions, plus `self.<field>`, `<expr> ** (1 / 2)`, `np.sum(m, axis=0)`, `np.all(p == q)`,
element-wise `+ - * /` and `** k` of 2-D arrays, calls `f(x)`, `f(x, gamma)`, `gamma(x)`, `self.<method>(…)`, `<scheme>.integrate(…)`,
the imported rule constructors; statements: docstring, `x = e`, `self.f = e` (constructor), `x += e`, `assert e` (known texts),
`if p is None: p = e` (optional parameter), the specialising `if gamma is None: … else: …`, a local `def` with a declared
signature, `return e`.
"""
import ast
import copy
import os
import sys

sys.path.insert(0, os.path.dirname(os.path.abspath(__file__)))
import quadgen as QG  # noqa: E402
from panels import Consts, Stats, TranslationError, lean_rat  # noqa: E402

SRC_FILE = os.path.join('src', 'norms.py')
CLASS = 'Slobodeckij'
QUAD_MODULE = 'quadrature'
# the rule constructors of src/quadrature.py that stay parameters, in the order of the Lean parameters
EXT_CTORS = ['gauss_sqrtinv_quadrature_scheme', 'gauss_quadrature_scheme', 'gauss_x_quadrature_scheme']

# declared parameter and result types of the methods (positional; the NAMES are taken from the source)
SIGS = {
    '__init__': (['int', 'optint'], 'self'),
    'seminorm_h_1_4': (['fun1', 'rat', 'rat'], 'rat'),
    'seminorm_h_1_2': (['integrand', 'rat', 'rat', 'optgamma'], 'rat'),
    'seminorm_h_1_2_pw': (['fung', 'rat', 'rat', 'gamma', 'rat', 'rat', 'gamma'], 'rat'),
}
# local function definitions: (method, name) -> (parameter types, result type)
NESTED_SIGS = {('seminorm_h_1_2_pw', 'slo'): (['mat2'], 'arr')}

# labels of the assertion failures (error strings of the hand model), keyed by the (unparsed) assertion text
ASSERT_TAGS = {
    'gamma_1 is not gamma_2': 'gamma-identity',
    'np.all(gamma_1(b_1) == gamma_2(a_2))': 'corner',
}

LEAN_TYPES = dict(QG.LEAN_TYPES)
LEAN_TYPES.update({'self': 'Slobodeckij', 'gamma': 'Gamma', 'pt': 'Rat × Rat', 'fung': 'Rat → Rat × Rat → Rat', 'optint': 'Option Int',
                   'ctor': 'Int → Except String QuadScheme1D', 'powhalf': 'Rat → Rat', 'matfun': 'List (List Rat) → List Rat'})

PRELUDE = r'''/-! ### object model and NumPy semantics used by the translated bodies (in addition to the prelude of `Gen/QuadGen.lean`)
TRUSTED (not derived from the source); every definition names the Python / NumPy behaviour it stands for. -/
section ObjectModel
/-- a parametrisation object: `id` = the identity of the Python object (`is`), `eval` = `gamma(x)` for a number `x` -/
structure Gamma where
  id : Nat
  eval : Rat → Rat × Rat
/-- `gamma(x)` for a 1-D array `x`: the `(2, n)` array of the images, row 0 = first coordinates, row 1 = second coordinates -/
def npGamma (g : Gamma) (x : List Rat) : List (List Rat) := [x.map fun u => (g.eval u).1, x.map fun u => (g.eval u).2]
/-- the integrand called as `f(x_hat, gamma)` on a 1-D array: entry-wise, `gamma` enters through `gamma(x_hat[i])` only -/
def npMapG (f : Rat → Rat × Rat → Rat) (g : Gamma) (x : List Rat) : List Rat := x.map fun u => f u (g.eval u)
/-- `m1 ∘ m2` for 2-D arrays of the same shape, `∘` one of `+ - * /`: entry-wise -/
def npMM (op : Rat → Rat → Rat) (a b : List (List Rat)) : List (List Rat) := List.zipWith (fun r s => List.zipWith op r s) a b
/-- `m ** k` for a 2-D array, literal exponent `k ≥ 0`: entry-wise power -/
def npPowM (m : List (List Rat)) (k : Nat) : List (List Rat) := m.map fun r => r.map fun u => u ^ k
/-- `np.sum(m, axis=0)`: the sums of the columns (row 0 + row 1 + …; the order does not matter in exact arithmetic) -/
def npSumAxis0 : List (List Rat) → List Rat
  | [] => []
  | [r] => r
  | r :: rs => List.zipWith (· + ·) r (npSumAxis0 rs)
/-- the `(2, 1)` array with the column `(u, v)` -/
def npCol (u v : Rat) : List (List Rat) := [[u], [v]]
/-- the single entry of a 1-D array of length one -/
def npAt0 (a : List Rat) : Rat := a.headD 0
end ObjectModel
'''
PRELUDE_NAMES = {'Gamma', 'npGamma', 'npMapG', 'npMM', 'npPowM', 'npSumAxis0', 'npCol', 'npAt0', 'powHalf', 'Slobodeckij'}


def lean_type(t):
    if t[0] == 'mat':
        return 'List (List Rat)'
    return LEAN_TYPES[t[0]]


paren = QG.paren


class NeedsExcept(Exception):
    """the body has an assertion / a call that may raise: translate it again in the `Except String` monad"""


# ---------------------------------------------------------------------------------------------------------
class NMod:
    """what `quadgen.Fn` asks of its module: source text of src/norms.py, the classes of src/quadrature.py"""
    def __init__(self, repo):
        import warnings
        self.qmod = QG.Module(repo)
        self.qmod.done = set()
        self.qparts = {}
        qconsts, qstats = Consts(), Stats()
        # run quadgen's class translation to learn the constructor signatures / which methods have assertions
        for name, ci in self.qmod.classes.items():
            if name in QG.EXTERNAL_CLASSES:
                continue
            if ci.base is None:
                self.qparts[name] = QG.gen_base_class(self.qmod, ci, qconsts, qstats)
            else:
                self.qparts[name] = QG.gen_subclass(self.qmod, ci, qconsts, qstats)
        self.classes = self.qmod.classes
        self.done = self.qmod.done
        self.functions = {}
        self.ext_rules = set()
        path = os.path.join(repo, SRC_FILE)
        self.text = open(path).read()
        with warnings.catch_warnings():
            warnings.simplefilter('ignore')
            self.tree = ast.parse(self.text)
        self.cls = None
        self.imported = set()
        np_ok = False
        for n in self.tree.body:
            if isinstance(n, ast.Import):
                for a in n.names:
                    if (a.name, a.asname) == ('numpy', 'np'):
                        np_ok = True
                    else:
                        raise TranslationError('unsupported import %s' % ast.unparse(n))
            elif isinstance(n, ast.ImportFrom):
                if n.module != QUAD_MODULE or n.level != 1:
                    raise TranslationError('unsupported import %s' % ast.unparse(n))
                for a in n.names:
                    if a.asname:
                        raise TranslationError('renamed import %s' % ast.unparse(n))
                    if a.name in self.classes:
                        if a.name in QG.EXTERNAL_CLASSES:
                            raise TranslationError('import of the untranslated class %s' % a.name)
                    elif a.name in self.qmod.functions:
                        if a.name not in EXT_CTORS:
                            raise TranslationError('import of %s: not one of the declared external rule constructors %s' % (a.name, EXT_CTORS))
                    else:
                        raise TranslationError('src/quadrature.py defines no %s' % a.name)
                    self.imported.add(a.name)
            elif isinstance(n, ast.ClassDef):
                if n.name != CLASS or self.cls is not None:
                    raise TranslationError('unexpected class %s (not translated, not skipped)' % n.name)
                if n.bases or n.decorator_list or n.keywords:
                    raise TranslationError('class %s: bases / decorators / keywords are not supported' % n.name)
                self.cls = n
            elif isinstance(n, ast.Expr) and isinstance(n.value, ast.Constant) and isinstance(n.value.value, str):
                pass
            else:
                raise TranslationError('unsupported module-level statement line %d: %s' % (n.lineno, self.seg(n)[:100]))
        if not np_ok:
            raise TranslationError('`import numpy as np` not found')
        if self.cls is None:
            raise TranslationError('class %s not found' % CLASS)
        # attribute stores: only `self.<f> = …` inside `__init__`
        for fn in self.cls.body:
            if not isinstance(fn, ast.FunctionDef):
                continue
            for n in ast.walk(fn):
                if isinstance(n, ast.Attribute) and isinstance(n.ctx, (ast.Store, ast.Del)):
                    if not (fn.name == '__init__' and isinstance(n.value, ast.Name) and n.value.id == 'self' and isinstance(n.ctx, ast.Store)):
                        raise TranslationError('%s line %d: attribute store outside `self.<f> = …` of the constructor' % (fn.name, n.lineno))
                if isinstance(n, ast.Call) and isinstance(n.func, ast.Name) and n.func.id in ('setattr', 'delattr', 'exec', 'eval', 'globals',
                                                                                           'locals', 'vars'):
                    raise TranslationError('%s uses %s' % (fn.name, n.func.id))
                if isinstance(n, (ast.Global, ast.Nonlocal, ast.Lambda, ast.Yield, ast.YieldFrom, ast.Await, ast.Try, ast.With, ast.While,
                                  ast.For)):
                    raise TranslationError('%s line %d: unsupported construct `%s`' % (fn.name, n.lineno, self.seg(n)[:80]))

    def seg(self, node):
        s = ast.get_source_segment(self.text, node)
        return ' '.join((s or ast.unparse(node)).split())

    def base_of_dim(self, d):
        return self.qmod.base_of_dim(d)

    def integrate_is_except(self, dim):
        """does `QuadScheme<dim>D.integrate` of Gen/QuadGen.lean return `Except String Rat`?"""
        head = [l for l in self.qparts[self.base_of_dim(dim)] if l.startswith('def QuadScheme%dD.integrate ' % dim)]
        if len(head) != 1:
            raise TranslationError('src/quadrature.py: QuadScheme%dD.integrate not found' % dim)
        return 'Except String' in head[0]


class Method:
    def __init__(self, name, variant, params, ret):
        self.name, self.variant, self.params, self.ret = name, variant, params, ret
        self.exc = False
        self.powhalf = False
        self.lean = '%s.%s' % (CLASS, name if variant is None else '%s_%s' % (name, variant))


# ---------------------------------------------------------------------------------------------------------
class NFn(QG.Fn):
    """translator of one method body (one variant); values are (code, type)"""
    def __init__(self, mod, consts, stats, fname, ret, exc, owner, variant=None, in_init=False):
        QG.Fn.__init__(self, mod, consts, stats, fname, ret, exc, None)
        self.owner = owner          # the class translator (fields, finished methods)
        self.variant = variant      # None / 'flat' / 'curve'
        self.in_init = in_init
        self.pre = []               # hoisted `let t ← …` lines of the current statement
        self.ntmp = 0
        self.uses_powhalf = False
        self.self_fields = {}       # constructor: field -> (local name, type)
        self.field_order = []
        self.nested = False

    def lean_name(self, node, name):
        if name in PRELUDE_NAMES or name in EXT_CTORS or name.startswith('self_') or (name.startswith('t') and name[1:].isdigit()):
            self.err(node, 'the local name `%s` cannot be used as a Lean name here' % name)
        return QG.Fn.lean_name(self, node, name)

    def need_exc(self, node, why):
        if self.nested:
            self.err(node, '%s inside a local function' % why)
        if not self.exc:
            raise NeedsExcept()

    def hoist(self, node, code, what):
        self.need_exc(node, what)
        self.ntmp += 1
        t = 't%d' % self.ntmp
        self.pre.append('let %s ← %s' % (t, code))
        return t

    # ---- expressions ----------------------------------------------------------------------------------
    def attribute(self, node, env):
        if isinstance(node.value, ast.Name) and node.value.id == 'self' and env.get('self', (None, ('?', )))[1][0] == 'self':
            if self.in_init:
                if node.attr not in self.self_fields:
                    self.err(node, 'the field is read before it is assigned')
                self.stats.bump('field_reads')
                return self.self_fields[node.attr]
            for f, t in self.owner.fields:
                if f == node.attr:
                    self.stats.bump('field_reads')
                    return ('self.%s' % f, t)
            self.err(node, 'the class %s has no data field `%s`' % (CLASS, node.attr))
        return QG.Fn.attribute(self, node, env)

    def is_half(self, node):
        return self.const_value(node) == 0.5 and not isinstance(self.const_value(node), int)

    def binop(self, node, env):
        if isinstance(node.op, ast.Pow):
            if self.is_half(node.right):
                v = self.expr(node.left, env)
                if v[1][0] not in ('rat', 'lit'):
                    self.err(node, '** (1/2) of %s' % v[1][0])
                self.uses_powhalf = True
                self.stats.bump('sqrt_factors')
                return ('(powHalf %s)' % paren(self.rat(node, v)), ('rat', ))
            if not (isinstance(node.right, ast.Constant) and isinstance(node.right.value, int) and
                    not isinstance(node.right.value, bool) and node.right.value >= 0):
                self.err(node, 'only ** <non-negative int literal> and ** (1 / 2) are supported')
            k = node.right.value
            v = self.expr(node.left, env)
            if v[1][0] in ('rat', 'lit'):
                return ('(%s ^ %d)' % (self.rat(node, v), k), ('rat', ))
            if v[1][0] == 'arr':
                return ('(npPow %s %d)' % (paren(v[0]), k), ('arr', ))
            if v[1][0] == 'mat':
                self.stats.bump('array_ops')
                return ('(npPowM %s %d)' % (paren(v[0]), k), ('mat', v[1][1]))
            self.err(node, '** of %s' % v[1][0])
        if isinstance(node.op, (ast.FloorDiv, ast.Mod)):
            return QG.Fn.binop(self, node, env)
        op = self.OPS.get(type(node.op))
        if op is None:
            self.err(node, 'unsupported binary operator')
        a, b = self.expr(node.left, env), self.expr(node.right, env)
        ta, tb = a[1][0], b[1][0]
        num = ('rat', 'lit')
        if ta in num and tb in num:
            return ('(%s %s %s)' % (self.rat(node, a), op, self.rat(node, b)), ('rat', ))
        if 'int' in (ta, tb) and ta in ('int', 'lit') and tb in ('int', 'lit') and op != '/':
            return ('(%s %s %s)' % (self.int_(node, a), op, self.int_(node, b)), ('int', ))
        self.stats.bump('array_ops')
        if ta in num and tb == 'arr':
            return ('(npSA (· %s ·) %s %s)' % (op, paren(self.rat(node, a)), paren(b[0])), ('arr', ))
        if ta == 'arr' and tb in num:
            return ('(npAS (· %s ·) %s %s)' % (op, paren(a[0]), paren(self.rat(node, b))), ('arr', ))
        if ta == 'arr' and tb == 'arr':
            return ('(npAA (· %s ·) %s %s)' % (op, paren(a[0]), paren(b[0])), ('arr', ))
        if ta == 'mat' and tb == 'mat':
            if a[1][1] is None or a[1][1] != b[1][1]:
                self.err(node, 'operator %s on 2-D arrays whose numbers of rows are not known to agree' % op)
            return ('(npMM (· %s ·) %s %s)' % (op, paren(a[0]), paren(b[0])), ('mat', a[1][1]))
        self.err(node, 'operator %s on %s and %s' % (op, ta, tb))

    def call(self, node, env):
        f = node.func
        if any(isinstance(a, ast.Starred) for a in node.args) or any(k.arg is None for k in node.keywords):
            self.err(node, 'star arguments are not supported')
        if isinstance(f, ast.Name) and f.id in env:
            fv = env[f.id]
            k = fv[1][0]
            if k == 'fung':
                if len(node.args) != 2 or node.keywords:
                    self.err(node, 'the integrand is called as f(x_hat, gamma) here')
                x, g = self.expr(node.args[0], env), self.expr(node.args[1], env)
                if g[1][0] != 'gamma':
                    self.err(node, 'second argument of the integrand: parametrisation expected, got %s' % g[1][0])
                self.stats.bump('integrand_calls')
                return ('(npMapG %s %s %s)' % (fv[0], paren(g[0]), paren(self.arr(node, x))), ('arr', ))
            if k == 'gamma':
                if len(node.args) != 1 or node.keywords:
                    self.err(node, 'a parametrisation takes one argument')
                x = self.expr(node.args[0], env)
                self.stats.bump('gamma_calls')
                if x[1][0] == 'arr':
                    return ('(npGamma %s %s)' % (fv[0], paren(x[0])), ('mat', 2))
                if x[1][0] in ('rat', 'lit'):
                    return ('(%s.eval %s)' % (fv[0], paren(self.rat(node, x))), ('pt', ))
                self.err(node, 'parametrisation called on %s' % x[1][0])
            if k == 'fun1' and len(node.args) != 1:
                self.err(node, 'the integrand is called as f(x) here')
            if k == 'matfun':
                self.err(node, 'call of a local function (it may only be handed to `integrate`)')
        if isinstance(f, ast.Name) and f.id in EXT_CTORS:
            if f.id not in self.mod.imported:
                self.err(node, 'the rule constructor is not imported from .%s' % QUAD_MODULE)
            if len(node.args) != 1 or node.keywords:
                self.err(node, 'a rule constructor takes one argument')
            n = self.int_(node, self.expr(node.args[0], env))
            self.stats.bump('external_rule_calls')
            return (self.hoist(node, '%s %s' % (f.id, paren(n)), 'call of an external rule constructor'), ('scheme1', ))
        if isinstance(f, ast.Name) and f.id in self.mod.classes and f.id not in self.mod.imported:
            self.err(node, 'the class is not imported from .%s' % QUAD_MODULE)
        if isinstance(f, ast.Attribute) and QG.Fn.np_func(self, f) is None:
            if isinstance(f.value, ast.Name) and f.value.id == 'self' and env.get('self', (None, ('?', )))[1][0] == 'self':
                return self.method_call(node, f.attr, env)
            if f.attr == 'integrate':
                return self.integrate_call(node, env)
            self.err(node, 'unsupported method call')
        return QG.Fn.call(self, node, env)

    def method_call(self, node, name, env):
        if self.in_init:
            self.err(node, 'method call inside the constructor')
        variants = [m for m in self.owner.methods if m.name == name]
        if not variants:
            self.err(node, 'call of a method that is not (yet) translated')
        sig_tys, _ = SIGS[name]
        pnames = self.owner.param_names[name]
        args = dict(zip(pnames, node.args))
        if len(node.args) > len(pnames):
            self.err(node, 'too many arguments')
        for k in node.keywords:
            if k.arg not in pnames or k.arg in args:
                self.err(node, 'unexpected keyword argument %s' % k.arg)
            args[k.arg] = k.value
        variant = None
        if 'optgamma' in sig_tys:
            gp = pnames[sig_tys.index('optgamma')]
            gv = args.get(gp)
            variant = 'flat' if gv is None or (isinstance(gv, ast.Constant) and gv.value is None) else 'curve'
            if variant == 'flat':
                args.pop(gp, None)
        m = [x for x in variants if x.variant == variant][0]
        codes = []
        for p, t in m.params:
            if p not in args:
                self.err(node, 'argument %s is missing' % p)
            v = self.expr(args[p], env)
            if t[0] == 'rat':
                codes.append(paren(self.rat(node, v)))
            elif v[1][0] != t[0]:
                self.err(node, 'argument %s: %s expected, got %s' % (p, t[0], v[1][0]))
            else:
                codes.append(paren(v[0]))
        if m.powhalf:
            self.uses_powhalf = True
            codes.insert(0, 'powHalf')
        code = '%s %s %s' % (m.lean, env['self'][0], ' '.join(codes))
        self.stats.bump('method_calls')
        if m.exc:
            return (self.hoist(node, code, 'call of a method with assertions'), (m.ret, ))
        return ('(%s)' % code, (m.ret, ))

    def integrate_call(self, node, env):
        s = self.expr(node.func.value, env)
        if s[1][0] not in ('scheme1', 'scheme2', 'scheme3'):
            self.err(node, '.integrate of %s' % s[1][0])
        d = int(s[1][0][-1])
        if node.keywords or len(node.args) != 1 + 2 * d:
            self.err(node, 'QuadScheme%dD.integrate takes the integrand and %d bounds' % (d, 2 * d))
        fv = self.expr(node.args[0], env) if not (isinstance(node.args[0], ast.Name) and node.args[0].id in env) else env[node.args[0].id]
        if fv[1][0] == 'fun%d' % d:
            fcode = fv[0]
        elif fv[1][0] == 'matfun' and d == 2:
            fcode = '(fun u v => npAt0 (%s (npCol u v)))' % fv[0]
            self.stats.bump('local_functions_as_integrands')
        else:
            self.err(node, 'integrand of type %s handed to QuadScheme%dD.integrate' % (fv[1][0], d))
        bounds = [paren(self.rat(node, self.expr(a, env))) for a in node.args[1:]]
        code = 'QuadScheme%dD.integrate %s %s %s' % (d, paren(s[0]), fcode, ' '.join(bounds))
        self.stats.bump('integrate_calls')
        if self.mod.integrate_is_except(d):
            return (self.hoist(node, code, 'call of QuadScheme%dD.integrate (it has assertions)' % d), ('rat', ))
        return ('(%s)' % code, ('rat', ))

    def np_call(self, node, name, env):
        args, kws = node.args, {k.arg: k.value for k in node.keywords}
        if name == 'sum':
            ax = kws.get('axis')
            if len(args) != 1 or set(kws) != {'axis'} or not (isinstance(ax, ast.Constant) and ax.value == 0 and not isinstance(ax.value, bool)):
                self.err(node, 'only np.sum(m, axis=0) is supported')
            m = self.expr(args[0], env)
            if m[1][0] != 'mat':
                self.err(node, 'np.sum(…, axis=0) of %s' % m[1][0])
            self.stats.bump('numpy_calls')
            return ('(npSumAxis0 %s)' % paren(m[0]), ('arr', ))
        if name == 'all':
            if len(args) != 1 or kws or not (isinstance(args[0], ast.Compare) and len(args[0].ops) == 1 and isinstance(args[0].ops[0], ast.Eq)):
                self.err(node, 'only np.all(p == q) is supported')
            p, q = self.expr(args[0].left, env), self.expr(args[0].comparators[0], env)
            if p[1][0] != 'pt' or q[1][0] != 'pt':
                self.err(node, 'np.all(p == q) of %s and %s' % (p[1][0], q[1][0]))
            self.stats.bump('numpy_calls')
            return ('(%s = %s)' % (p[0], q[0]), ('prop', ))
        return QG.Fn.np_call(self, node, name, env)

    def cond(self, node, env):
        # identity of parametrisation objects
        if isinstance(node, ast.Compare) and len(node.ops) == 1 and isinstance(node.ops[0], (ast.Is, ast.IsNot)):
            a, b = self.expr(node.left, env), self.expr(node.comparators[0], env)
            if a[1][0] == 'gamma' and b[1][0] == 'gamma':
                self.stats.bump('identity_tests')
                return '(%s.id %s %s.id)' % (a[0], '=' if isinstance(node.ops[0], ast.Is) else '≠', b[0])
            self.err(node, '`is` between %s and %s' % (a[1][0], b[1][0]))
        return QG.Fn.cond(self, node, env)

    # ---- statements -----------------------------------------------------------------------------------
    def flush(self, pad):
        out = [pad + l for l in self.pre]
        self.pre = []
        return out

    def result(self, node, v, ind):
        pad = ' ' * ind
        if self.ret == 'rat':
            code = self.rat(node, v)
        elif v[1][0] != self.ret:
            self.err(node, 'result of type %s (expected %s)' % (v[1][0], self.ret))
        else:
            code = v[0]
        self.stats.bump('returns')
        return self.flush(pad) + [pad + ('pure %s' % paren(code) if self.exc else code)]

    def bind(self, st, name, v, env, lines, pad):
        self.lean_name(st, name)
        t = v[1]
        if t[0] in ('prop', 'none', 'pair', 'fun1', 'fun2', 'fun3', 'fung', 'matfun', 'self'):
            self.err(st, 'assignment of a value of type %s' % t[0])
        if t[0] == 'lit':
            v, t = (lean_rat(v[0]), ('rat', )), ('rat', )
        lines.append(pad + 'let %s := %s' % (name, v[0]))
        env[name] = (name, t)
        self.stats.bump('assignments')

    def is_none_test(self, t):
        if isinstance(t, ast.Compare) and len(t.ops) == 1 and isinstance(t.ops[0], (ast.Is, ast.IsNot)) and isinstance(t.left, ast.Name) \
                and isinstance(t.comparators[0], ast.Constant) and t.comparators[0].value is None:
            return t.left.id, isinstance(t.ops[0], ast.Is)
        return None

    def block(self, stmts, env, ind, first=False):
        pad = ' ' * ind
        if not stmts:
            if self.in_init:
                missing = [f for f in self.field_order if f not in self.self_fields]
                if missing:
                    raise TranslationError('%s: fields %s are not assigned on every path' % (self.fname, missing))
                self.stats.bump('returns')
                return [pad + 'pure { %s }' % ', '.join('%s := %s' % (f, self.self_fields[f][0]) for f in self.field_order)]
            raise TranslationError('%s: a path falls off the end of the function (Python would return None)' % self.fname)
        st, rest = stmts[0], stmts[1:]
        if first and isinstance(st, ast.Expr) and isinstance(st.value, ast.Constant) and isinstance(st.value.value, str):
            return self.block(rest, env, ind)
        if isinstance(st, ast.Return):
            if rest:
                self.err(rest[0], 'unreachable statement after return')
            if st.value is None:
                self.err(st, 'bare return')
            if self.in_init:
                self.err(st, 'return in __init__')
            return self.result(st, self.expr(st.value, env), ind)
        if isinstance(st, ast.Assert):
            if st.msg is not None:
                self.err(st, 'assert with a message')
            text = ast.unparse(st.test)
            if text not in ASSERT_TAGS:
                self.err(st, 'assertion without a known label')
            self.need_exc(st, 'assertion')
            self.stats.bump('asserts')
            c = self.cond(st.test, env)
            return (self.flush(pad) + [pad + 'if ¬ %s then .error "assert:%s"' % (c, ASSERT_TAGS[text]), pad + 'else'] +
                    self.block(rest, env, ind + 2))
        if isinstance(st, ast.Assign):
            return self.assign(st, rest, env, ind)
        if isinstance(st, ast.AugAssign):
            if not (isinstance(st.target, ast.Name) and isinstance(st.op, (ast.Add, ast.Sub, ast.Mult)) and st.target.id in env):
                self.err(st, 'unsupported augmented assignment')
            # `x += e` on numbers / arrays of exact numbers: `x = x + e` (no aliasing is observable: the old value is not used again)
            name = st.target.id
            new = ast.BinOp(left=ast.Name(id=name, ctx=ast.Load()), op=st.op, right=st.value)
            ast.copy_location(new, st)
            ast.fix_missing_locations(new)
            v = self.binop_synth(st, new, env)
            env2, lines = dict(env), []
            if v[1][0] != env[name][1][0] and not (v[1][0] == 'rat' and env[name][1][0] in ('rat', 'lit')):
                self.err(st, 'augmented assignment changes the type from %s to %s' % (env[name][1][0], v[1][0]))
            self.bind(st, name, v, env2, lines, pad)
            self.stats.bump('augmented_assignments')
            return self.flush(pad) + lines + self.block(rest, env2, ind)
        if isinstance(st, ast.FunctionDef):
            return self.local_def(st, rest, env, ind)
        if isinstance(st, ast.If):
            return self.if_lines(st, rest, env, ind)
        self.err(st, 'unsupported statement')

    def binop_synth(self, st, node, env):
        """a BinOp built by the translator (`x += e`): error messages quote the statement"""
        try:
            return self.binop(node, env)
        except TranslationError:
            raise
        except Exception:
            self.err(st, 'unsupported augmented assignment')

    def assign(self, st, rest, env, ind):
        pad = ' ' * ind
        env2, lines = dict(env), []
        tgs = st.targets
        if len(tgs) == 1 and isinstance(tgs[0], ast.Attribute):
            t = tgs[0]
            if not (self.in_init and isinstance(t.value, ast.Name) and t.value.id == 'self'):
                self.err(st, 'unsupported assignment target')
            if t.attr in self.self_fields:
                self.err(st, 'field assigned twice')
            QG.Fn.lean_name(self, st, t.attr)
            v = self.expr(st.value, env)
            if v[1][0] not in ('scheme1', 'scheme2', 'arr'):
                self.err(st, 'field of type %s' % v[1][0])
            local = 'self_%s' % t.attr
            lines.append(pad + 'let %s := %s' % (local, v[0]))
            self.self_fields[t.attr] = (local, v[1])
            self.field_order.append(t.attr)
            self.stats.bump('fields')
            return self.flush(pad) + lines + self.block(rest, env2, ind)
        if all(isinstance(t, ast.Name) for t in tgs):
            v = self.expr(st.value, env)
            self.bind(st, tgs[0].id, v, env2, lines, pad)
            for t in tgs[1:]:
                self.bind(st, t.id, env2[tgs[0].id], env2, lines, pad)
            return self.flush(pad) + lines + self.block(rest, env2, ind)
        self.err(st, 'unsupported assignment target')

    def local_def(self, st, rest, env, ind):
        pad = ' ' * ind
        method = self.fname.split('.')[-1]
        key = (method, st.name)
        if key not in NESTED_SIGS:
            self.err(st, 'local function without a declared signature (not translated, not skipped)')
        a = st.args
        if a.vararg or a.kwarg or a.kwonlyargs or a.posonlyargs or a.defaults or st.decorator_list or st.returns is not None:
            self.err(st, 'unsupported parameter kinds / decorators of a local function')
        tys, ret = NESTED_SIGS[key]
        names = [x.arg for x in a.args]
        if len(names) != len(tys) or any(x.annotation is not None for x in a.args):
            self.err(st, 'local function %s: parameters %s (expected %d of types %s)' % (st.name, names, len(tys), tys))
        if self.nested:
            self.err(st, 'local function inside a local function')
        self.lean_name(st, st.name)
        sub = NFn(self.mod, self.consts, self.stats, self.fname + '.' + st.name, ret, False, self.owner, self.variant)
        sub.nested = True
        env_in = dict(env)
        ps = []
        for n, t in zip(names, tys):
            sub.lean_name(st, n)
            tt = ('mat', 2) if t == 'mat2' else (t, )
            env_in[n] = (n, tt)
            ps.append('(%s : %s)' % (n, lean_type(tt)))
        body = sub.block(st.body, env_in, ind + 2, first=True)
        if sub.uses_powhalf:
            self.uses_powhalf = True
        if (tys, ret) != (['mat2'], 'arr'):
            self.err(st, 'internal: local function type')
        env2 = dict(env)
        env2[st.name] = (st.name, ('matfun', ))
        self.stats.bump('local_functions')
        return [pad + 'let %s := fun %s =>' % (st.name, ' '.join(ps))] + body + self.block(rest, env2, ind)

    def if_lines(self, st, rest, env, ind):
        pad = ' ' * ind
        nt = self.is_none_test(st.test)
        if nt is not None:
            p, is_none = nt
            if p in env and env[p][1][0] == 'optint':
                # `if p is None: p = e` for a parameter with default None
                if not is_none or st.orelse or len(st.body) != 1 or not (
                        isinstance(st.body[0], ast.Assign) and len(st.body[0].targets) == 1 and
                        isinstance(st.body[0].targets[0], ast.Name) and st.body[0].targets[0].id == p):
                    self.err(st, '`if %s is None: %s = <default>` expected' % (p, p))
                v = self.expr(st.body[0].value, env)
                if v[1][0] not in ('int', 'lit'):
                    self.err(st, 'default of type %s' % v[1][0])
                env2 = dict(env)
                env2[p] = (p, ('int', ))
                self.stats.bump('default_arguments')
                return (self.flush(pad) + [pad + 'let %s := (match %s with | some v => v | none => %s)' % (p, env[p][0], self.int_(st, v))] +
                        self.block(rest, env2, ind))
            if p in self.owner.spec_param.get(self.fname.split('.')[-1], ()):  # the specialising test
                if self.variant not in ('flat', 'curve'):
                    self.err(st, 'internal: specialising test in an unspecialised body')
                taken_none = self.variant == 'flat'
                body = st.body if taken_none == is_none else st.orelse
                if not body:
                    body = []
                self.stats.bump('specialised_branches')
                if QG.Fn.always_returns(body) and rest:
                    self.err(rest[0], 'unreachable statement after an if whose branches all return')
                return self.block(list(body) + ([] if QG.Fn.always_returns(body) else list(rest)), env, ind)
            self.err(st, '`is None` is supported for a parameter with default None only')
        c = self.cond(st.test, env)
        self.stats.bump('branches')
        if self.always_returns(st.body) and st.orelse and self.always_returns(st.orelse) and rest:
            self.err(rest[0], 'unreachable statement after an if whose branches all return')
        then_stmts = list(st.body) if self.always_returns(st.body) else list(st.body) + list(rest)
        else_stmts = list(st.orelse) if (st.orelse and self.always_returns(st.orelse)) else list(st.orelse) + list(rest)
        if not self.in_init and not (self.always_returns(then_stmts) and self.always_returns(else_stmts)):
            self.err(st, 'a branch falls off the end of the function')
        return (self.flush(pad) + [pad + 'if %s then' % c] + self.block(then_stmts, dict(env), ind + 2) + [pad + 'else'] +
                self.block(else_stmts, dict(env), ind + 2))


# ---------------------------------------------------------------------------------------------------------
class ClassTr:
    def __init__(self, mod, consts, stats):
        self.mod, self.consts, self.stats = mod, consts, stats
        self.fields = []        # [(field, type)]
        self.methods = []       # finished Method objects, in the order of the source
        self.param_names = {}   # method -> python parameter names (without self)
        self.spec_param = {}    # method -> set of specialising parameter names

    def params_of(self, fn):
        a = fn.args
        key = fn.name
        if a.vararg or a.kwarg or a.kwonlyargs or a.posonlyargs:
            raise TranslationError('%s: unsupported parameter kinds' % key)
        if fn.decorator_list or fn.returns is not None or any(x.annotation is not None for x in a.args):
            raise TranslationError('%s: decorators / annotations are not supported' % key)
        names = [x.arg for x in a.args]
        if not names or names[0] != 'self':
            raise TranslationError('%s: first parameter is not self' % key)
        names = names[1:]
        if key not in SIGS:
            raise TranslationError('%s.%s: no declared signature (unknown method: not translated, not skipped)' % (CLASS, key))
        tys, ret = SIGS[key]
        if len(tys) != len(names):
            raise TranslationError('%s: parameters %s (expected %d of types %s)' % (key, names, len(tys), tys))
        defaults = ([None] * (len(a.args) - len(a.defaults)) + list(a.defaults))[1:]
        for n, t, d in zip(names, tys, defaults):
            if t in ('optint', 'optgamma'):
                if not (isinstance(d, ast.Constant) and d.value is None):
                    raise TranslationError('%s: parameter %s must have the default None' % (key, n))
            elif d is not None:
                raise TranslationError('%s: default value of parameter %s is not supported' % (key, n))
        return names, tys, ret

    def translate_variant(self, fn, variant):
        names, tys, ret = self.params_of(fn)
        self.param_names[fn.name] = names
        params, env_tys = [], {}
        for n, t in zip(names, tys):
            if t == 'integrand':
                t = 'fun1' if variant == 'flat' else 'fung'
            if t == 'optgamma':
                self.spec_param.setdefault(fn.name, set()).add(n)
                if variant == 'flat':
                    continue
                t = 'gamma'
            params.append((n, (t, )))
        in_init = fn.name == '__init__'
        m = Method(fn.name, variant, params, ret)
        for exc in (False, True):
            stats = Stats()
            consts = copy.deepcopy(self.consts)
            tr = NFn(self.mod, consts, stats, '%s.%s' % (CLASS, fn.name), ret, exc, self, variant, in_init)
            env = {'self': ('self', ('self', ))}
            for p, t in params:
                tr.lean_name(fn, p)
                env[p] = (p, t)
            if variant == 'flat':
                # the specialising parameter is `None` in this variant: no value, only the test on it is defined
                for sp in self.spec_param.get(fn.name, ()):
                    env.pop(sp, None)
            try:
                if in_init and not exc:
                    raise NeedsExcept()   # the constructor calls the external rule constructors
                body = tr.block(fn.body, env, 2, first=True)
            except NeedsExcept:
                continue
            m.exc, m.powhalf = exc, tr.uses_powhalf
            self.consts.defs.update(consts.defs)
            for k, v in stats.n.items():
                self.stats.bump(k, v)
            if in_init:
                self.fields = [(f, tr.self_fields[f][1]) for f in tr.field_order]
            return m, body
        raise TranslationError('internal: %s could not be translated in either mode' % fn.name)

    def header(self, m, in_init):
        ps = []
        if in_init:
            ps += ['(%s : %s)' % (c, LEAN_TYPES['ctor']) for c in EXT_CTORS]
        else:
            ps.append('(self : %s)' % CLASS)
            if m.powhalf:
                ps.append('(powHalf : Rat → Rat)')
        ps += ['(%s : %s)' % (p, lean_type(t)) for p, t in m.params]
        ret = CLASS if in_init else LEAN_TYPES[m.ret]
        name = '%s.init' % CLASS if in_init else m.lean
        return 'def %s %s : %s :=%s' % (name, ' '.join(ps), 'Except String %s' % ret if m.exc else ret, ' do' if m.exc else '')

    def run(self):
        cls = self.mod.cls
        fns = [n for n in cls.body if isinstance(n, ast.FunctionDef)]
        other = [n for n in cls.body if not isinstance(n, ast.FunctionDef) and
                 not (isinstance(n, ast.Expr) and isinstance(n.value, ast.Constant) and isinstance(n.value.value, str))]
        if other:
            raise TranslationError('class %s: unsupported class-level statement `%s`' % (CLASS, self.mod.seg(other[0])[:80]))
        names = [f.name for f in fns]
        if len(set(names)) != len(names):
            raise TranslationError('class %s: a method is defined twice' % CLASS)
        if not fns or fns[0].name != '__init__':
            raise TranslationError('class %s: __init__ must be the first method' % CLASS)
        out = []
        for fn in fns:
            if fn.name not in SIGS:
                raise TranslationError('%s.%s: no declared signature (unknown method: not translated, not skipped)' % (CLASS, fn.name))
            tys, _ = SIGS[fn.name]
            variants = ['flat', 'curve'] if 'optgamma' in tys else [None]
            done = []
            for variant in variants:
                m, body = self.translate_variant(fn, variant)
                done.append(m)
                in_init = fn.name == '__init__'
                pnames = ', '.join(self.param_names[fn.name])
                if in_init:
                    doc = ('/-- `%s(%s)`; parameters `%s` = the rule constructors of src/quadrature.py (external: C05 / C15; a call may '
                           'raise) -/' % (CLASS, pnames, '`, `'.join(EXT_CTORS)))
                    fields = ['/-- the data of a `%s` object: one field per `self.<f> = …` of `__init__`, in the order of the source -/' % CLASS,
                              'structure %s where' % CLASS]
                    fields += ['  %s : %s' % (f, lean_type(t)) for f, t in self.fields]
                    fields += ['deriving Repr, DecidableEq', '']
                    out += fields
                elif variant is None:
                    doc = '/-- `%s.%s(%s)`%s%s -/' % (CLASS, fn.name, pnames, ' (assertion failures are errors)' if m.exc else '',
                                                      '; `powHalf h` = `h**(1 / 2)`' if m.powhalf else '')
                else:
                    sp = sorted(self.spec_param[fn.name])[0]
                    doc = '/-- `%s.%s(%s)` with `%s` %s -/' % (CLASS, fn.name, pnames, sp,
                                                               '= None (the default)' if variant == 'flat' else 'given (not None)')
                out += [doc, self.header(m, in_init)] + body + ['']
                self.stats.bump('constructors' if in_init else 'methods')
            self.methods += done
        return out


def generate_text(repo):
    mod = NMod(repo)
    consts, stats = Consts(), Stats()
    ct = ClassTr(mod, consts, stats)
    body = ct.run()
    stats.bump('classes')
    out = ['/- GENERATED by translate/normsgen.py from src/norms.py -- do not edit. -/',
           'import Stbem.Gen.QuadGen',
           'namespace Stbem.Gen.NormsGen',
           'open Stbem.Gen.QuadGen',
           '']
    if consts.defs:
        out += ['/-! ### float literals of the source (exact values of the binary64 numbers Python computes with) -/']
        for name in sorted(consts.defs):
            fr, what = consts.defs[name]
            out += ['/-- %s -/' % what, 'def %s : Rat := %s' % (name, lean_rat(fr))]
        out += ['']
    out += [PRELUDE]
    out += ['/-! ### the class `%s` of `src/norms.py`, statement by statement -/' % CLASS]
    out += body
    out += ['end Stbem.Gen.NormsGen', '']
    st = dict(stats.n)
    st['_methods'] = [(m.lean, m.exc, m.powhalf, [p for p, _ in m.params]) for m in ct.methods]
    st['_fields'] = [f for f, _ in ct.fields]
    return '\n'.join(out), st


# what the driver (Driver/NormsGenCmd.lean), the bridge (Model/NormsConv.lean) and the theorems refer to: the generated file is only
# written when all of it is there with the declared parameter types (result types may gain / lose `Except`), so that a change of
# src/norms.py can break the obligations of C14 but never the shared driver build of the other checks
REQUIRED_DEFS = ['Slobodeckij.init', 'Slobodeckij.seminorm_h_1_4', 'Slobodeckij.seminorm_h_1_2_flat', 'Slobodeckij.seminorm_h_1_2_curve',
                 'Slobodeckij.seminorm_h_1_2_pw']
REQUIRED_FIELDS = ['gauss_sqrtinv', 'semi_1_4_xy', 'semi_1_4_weights', 'gauss_leg', 'gauss_x', 'semi_1_2_xy', 'semi_1_2_weights',
                   'semi_1_2_pw']
REQUIRED_POWHALF = {'Slobodeckij.seminorm_h_1_4': True, 'Slobodeckij.seminorm_h_1_2_flat': False, 'Slobodeckij.seminorm_h_1_2_curve': False,
                    'Slobodeckij.seminorm_h_1_2_pw': False}


def check_required(text, stats):
    for d in REQUIRED_DEFS:
        if '\ndef %s ' % d not in text:
            raise TranslationError('the source no longer defines %s (method removed or renamed)' % d.replace('.init', '.__init__'))
    if stats['_fields'] != REQUIRED_FIELDS:
        raise TranslationError('the data fields of %s are %s (the bridge Model/NormsConv.lean expects %s)' % (CLASS, stats['_fields'],
                                                                                                            REQUIRED_FIELDS))
    for lean, exc, powhalf, _ in stats['_methods']:
        if lean in REQUIRED_POWHALF and REQUIRED_POWHALF[lean] != powhalf:
            raise TranslationError('%s %s the factor h**(1/2) (the driver and the theorems expect the opposite)' %
                                   (lean, 'has' if powhalf else 'no longer has'))


def generate(repo, gen_dir, write, compiles=None):
    """`compiles(text) -> error message or None`: optional test compilation of a CHANGED file before it is written"""
    text, stats = generate_text(repo)
    check_required(text, stats)
    path = os.path.join(gen_dir, 'NormsGen.lean')
    try:
        same = open(path).read() == text
    except FileNotFoundError:
        same = False
    if not same and compiles is not None:
        msg = compiles(text)
        if msg:
            raise TranslationError('the generated Lean text does not compile (the previous Gen/NormsGen.lean is kept):\n' + msg)
    write(path, text)
    stats['changed'] = int(not same)
    return stats


if __name__ == '__main__':
    sys.path.insert(0, os.path.join(os.path.dirname(os.path.abspath(__file__)), '..'))
    from harness.common import write_if_changed
    gen = os.path.join(os.path.dirname(os.path.abspath(__file__)), '..', 'lean', 'Stbem', 'Gen')
    if len(sys.argv) < 2:
        sys.exit('usage: normsgen.py <repo> [--print]')
    if '--print' in sys.argv:
        t, s = generate_text(sys.argv[1])
        print(t)
        print(s, file=sys.stderr)
    else:
        print(generate(sys.argv[1], gen, write_if_changed))
