#!/venv/bin/python
"""Translator: /repo/problems.py (ast, the text as it is NOW) -> Lean definitions over two carriers.

Every function that `problem_helper` can hand out is emitted twice from one intermediate term (the expression machinery
is `translate/formulas.py`, extended through its `ctx.ext` hook):
  * `Stbem/Gen/ProblemsQ.lean` over `Rat` (computable, Mathlib-free, linked into the driver; complex values are Gaussian
    rationals `CQ`), together with the dispatch table of `problem_helper` as an executable function `helper`;
  * `Stbem/Gen/ProblemsR.lean` over `ℝ` (complex values in `ℂ`), used by the theorems of `Props/C03Problems.lean`.
Special functions are fields of a structure `Fns` (parameters): `exp sqrt sin erf erfc : ℝ → ℝ`, `pi : ℝ`, and, for the two
complex-error-function closed forms of the Smooth problems, `cexp cerf cerfc : ℂ → ℂ` (SciPy's `erf`/`erfc`, NumPy's `exp`
at complex arguments).  Python's `%` is `pmod x y = x - y * ⌊x / y⌋` (defined in the header, both carriers).

What is translated (anything else in the file raises TranslationError = a broken obligation of the check):
  * module level: exactly the imports `import numpy as np`, `from scipy.special import erf, erfc` (so that the names `np`,
    `erf`, `erfc` mean what the structure fields mean), the factory functions, `problem_helper`;
  * a factory `def f(): <inner defs>; return {key: <inner def name> | <lambda>, ...}`; the key fixes the signature:
      'u0': (xy) · 'M0u0': (t, xy) · 'u-trace': (t, x_hat) · 'g': (t, xy) · 'g-linform': (elems)
    (`xy` a 2-vector used only as `xy[0]`, `xy[1]` -> two scalar parameters `xy0 xy1`);
  * expressions: the fragment of translate/formulas.py plus `np.sin`, `%`, `v[0]`/`v[1]`, complex constants (`1j`),
    `<expr>.real`; static typing real/complex with NumPy's promotion rule (a real operand of a complex operation is
    computed in the reals and then embedded);
  * 'g-linform': `lambda elems: np.array([<expr in elem.h_t, elem.h_x, elem.time_interval[0|1]> for elem in elems])`
    -> a function of the four scalars `h_t h_x ti0 ti1` (the value for one element);
  * `problem_helper`: the two `assert <name> in [<string literals>]`, `result = {}`, the `if/elif/else` tree over
    `problem == '<lit>'` / `domain == '<lit>'` whose leaves are `result.update(<factory>())`, `result['<key>'] = <lambda>`,
    `print(...)` (no observable effect on the result; dropped), `assert False`, and the final `return result`.
"""
import ast
import os
import sys
from fractions import Fraction

sys.path.insert(0, os.path.dirname(os.path.abspath(__file__)))
import formulas as FM  # noqa: E402
from formulas import TranslationError  # noqa: E402

SOURCE = 'problems.py'

# key -> parameter kinds of the function stored under that key
SIGNATURES = {
    'u0': ['vec2'],
    'M0u0': ['scalar', 'vec2'],
    'u-trace': ['scalar', 'scalar'],
    'g': ['scalar', 'vec2'],
    'g-linform': ['elems'],
}
ELEM_PARAMS = ['h_t', 'h_x', 'ti0', 'ti1']
REAL_ONLY = {'sqrt', 'sin'}
REAL_OR_COMPLEX = {'exp': 'cexp', 'erf': 'cerf', 'erfc': 'cerfc'}
ALLOWED_KINDS = {'num', 'lit', 'cnum', 'const', 'var', 'op', 'neg', 'pow', 'call', 're', 'mod', 'let'}


# ---------------------------------------------------------------------------------------------------------
# expression extension (hook of formulas.expr)
class Ctx(FM.Ctx):
    def __init__(self, src, elem_var=None):
        super().__init__(src, {}, {})
        self.elem_var = elem_var

    def ext(self, node, env, ctx):
        lit = literal_value(node, self.src)
        if lit is not None:
            return lit
        if isinstance(node, ast.Constant) and isinstance(node.value, complex):
            z = node.value
            re, im = Fraction(z.real), Fraction(z.imag)
            return ('cnum', (re.numerator, re.denominator), (im.numerator, im.denominator))
        if isinstance(node, ast.Name) and node.id in env and env[node.id][0] == 'vec':
            raise TranslationError('vector parameter %s used other than as %s[0], %s[1]' % ((node.id, ) * 3))
        if isinstance(node, ast.Subscript):
            idx = node.slice
            if not (isinstance(idx, ast.Constant) and isinstance(idx.value, int) and not isinstance(idx.value, bool)):
                raise TranslationError('unsupported subscript %s' % ast.get_source_segment(self.src, node))
            v = node.value
            if isinstance(v, ast.Name) and v.id in env and env[v.id][0] == 'vec':
                if idx.value not in (0, 1):
                    raise TranslationError('index %d of a 2-vector' % idx.value)
                return ('var', '%s%d' % (env[v.id][1], idx.value))
            if (isinstance(v, ast.Attribute) and isinstance(v.value, ast.Name) and v.value.id == self.elem_var and
                    v.attr == 'time_interval' and idx.value in (0, 1)):
                return ('var', 'ti%d' % idx.value)
            raise TranslationError('unsupported subscript %s' % ast.get_source_segment(self.src, node))
        if isinstance(node, ast.Attribute):
            if isinstance(node.value, ast.Name) and node.value.id == self.elem_var and self.elem_var is not None:
                if node.attr in ('h_t', 'h_x'):
                    return ('var', node.attr)
                raise TranslationError('unsupported element attribute %s' % node.attr)
            if node.attr == 'real' and not (isinstance(node.value, ast.Name) and node.value.id in ('np', 'math')):
                return ('re', FM.expr(node.value, env, ctx))
            return None
        if isinstance(node, ast.BinOp) and isinstance(node.op, ast.Mod):
            return ('mod', FM.expr(node.left, env, ctx), FM.expr(node.right, env, ctx))
        if isinstance(node, ast.Call):
            name = FM.call_name(node)
            if name in ('sin', ):
                if len(node.args) != 1 or node.keywords:
                    raise TranslationError('%s takes one argument' % name)
                return ('call', name, FM.expr(node.args[0], env, ctx))
            if node.keywords:
                raise TranslationError('keyword arguments in %s' % ast.get_source_segment(self.src, node))
            if name not in ('exp', 'sqrt', 'erf', 'erfc'):
                raise TranslationError('call of %s is not part of the problems.py fragment' % name)
            return None
        return None


def ideal_fraction(node, src):
    """Exact value of a literal-only expression (ints, decimal literals read as decimals, + - * /), or None."""
    if isinstance(node, ast.Constant) and isinstance(node.value, (int, float)) and not isinstance(node.value, bool):
        if isinstance(node.value, int):
            return Fraction(node.value)
        try:
            return Fraction(ast.get_source_segment(src, node).replace('_', ''))
        except Exception:
            return None
    if isinstance(node, ast.UnaryOp) and isinstance(node.op, (ast.USub, ast.UAdd)):
        v = ideal_fraction(node.operand, src)
        return None if v is None else (-v if isinstance(node.op, ast.USub) else v)
    if isinstance(node, ast.BinOp) and isinstance(node.op, (ast.Add, ast.Sub, ast.Mult, ast.Div)):
        a, b = ideal_fraction(node.left, src), ideal_fraction(node.right, src)
        if a is None or b is None:
            return None
        if isinstance(node.op, ast.Add):
            return a + b
        if isinstance(node.op, ast.Sub):
            return a - b
        if isinstance(node.op, ast.Mult):
            return a * b
        return a / b if b != 0 else None
    return None


def literal_value(node, src):
    """A literal-only arithmetic expression is evaluated by Python itself before it meets any argument: ints exactly,
    but `/` and float literals in binary64.  Returns ('num', p, q) when that value is the ideal one, else
    ('lit', ideal, executed, text) -- printed as the ideal value over ℝ and as the executed one over Rat."""
    if not isinstance(node, (ast.BinOp, ast.UnaryOp)) and not (isinstance(node, ast.Constant) and isinstance(node.value, float)):
        return None
    ideal = ideal_fraction(node, src)
    if ideal is None:
        return None
    try:
        val = eval(compile(ast.Expression(body=node), '<literal>', 'eval'), {'__builtins__': {}}, {})
        executed = Fraction(val)
    except Exception as exc:
        raise TranslationError('literal expression %s cannot be evaluated: %s' % (ast.get_source_segment(src, node), exc))
    if executed == ideal:
        return ('num', ideal.numerator, ideal.denominator)
    return ('lit', (ideal.numerator, ideal.denominator), (executed.numerator, executed.denominator),
            ast.get_source_segment(src, node))


def typeof(t, tenv):
    """'R' or 'C' (NumPy's promotion); raises on constructs outside the fragment."""
    k = t[0]
    if k not in ALLOWED_KINDS:
        raise TranslationError('construct %r is not part of the problems.py fragment' % (k, ))
    if k in ('num', 'const', 'lit'):
        return 'R'
    if k == 'cnum':
        return 'C'
    if k == 'var':
        return tenv.get(t[1], 'R')
    if k == 'op':
        return 'C' if 'C' in (typeof(t[2], tenv), typeof(t[3], tenv)) else 'R'
    if k in ('neg', 'pow'):
        return typeof(t[1], tenv)
    if k == 'call':
        a = typeof(t[2], tenv)
        if t[1] in REAL_OR_COMPLEX:
            return a
        if t[1] in REAL_ONLY:
            if a != 'R':
                raise TranslationError('%s of a complex argument' % t[1])
            return 'R'
        raise TranslationError('special function %s is not part of the problems.py fragment' % t[1])
    if k == 're':
        if typeof(t[1], tenv) != 'C':
            raise TranslationError('.real of a real expression')
        return 'R'
    if k == 'mod':
        if typeof(t[1], tenv) != 'R' or typeof(t[2], tenv) != 'R':
            raise TranslationError('% of complex operands')
        return 'R'
    if k == 'let':
        t2 = dict(tenv)
        t2[t[1]] = typeof(t[2], tenv)
        return typeof(t[3], t2)
    raise TranslationError('cannot type %r' % (t, ))


class Carrier:
    def __init__(self, real, cplx, coe, cnum, executed):
        self.real, self.cplx, self.coe, self.cnum, self.executed = real, cplx, coe, cnum, executed


CARRIER_Q = Carrier('Rat', 'CQ', lambda s: '(CQ.ofRat %s)' % s,
                    lambda re, im: '(CQ.mk %s %s)' % (FM.lean_num(re[0], re[1], 'Rat'), FM.lean_num(im[0], im[1], 'Rat')), True)
CARRIER_R = Carrier('ℝ', 'ℂ', lambda s: '((%s : ℝ) : ℂ)' % s,
                    lambda re, im: 'Complex.I' if (re, im) == ((0, 1), (1, 1)) else
                    '(Complex.mk %s %s)' % (FM.lean_num(re[0], re[1], 'ℝ'), FM.lean_num(im[0], im[1], 'ℝ')), False)


def show(t, want, tenv, car):
    """Prints `t` as a Lean term of type `want` ('R' real carrier / 'C' complex carrier)."""
    ty = typeof(t, tenv)
    if ty == 'C' and want == 'R':
        raise TranslationError('complex value where a real one is required')
    if ty == 'R' and want == 'C':
        return car.coe(show(t, 'R', tenv, car))
    k = t[0]
    if k == 'num':
        return FM.lean_num(t[1], t[2], car.real)
    if k == 'lit':
        p, q = t[2] if car.executed else t[1]
        return FM.lean_num(p, q, car.real)
    if k == 'cnum':
        return car.cnum(t[1], t[2])
    if k == 'var':
        return FM.ident(t[1])
    if k == 'const':
        return 'S.' + t[1]
    if k == 'op':
        return '(%s %s %s)' % (show(t[2], ty, tenv, car), t[1], show(t[3], ty, tenv, car))
    if k == 'neg':
        return '(-%s)' % show(t[1], ty, tenv, car)
    if k == 'pow':
        return '(%s ^ %d)' % (show(t[1], ty, tenv, car), t[2])
    if k == 'call':
        a = typeof(t[2], tenv)
        f = REAL_OR_COMPLEX[t[1]] if a == 'C' else t[1]
        return '(S.%s %s)' % (f, show(t[2], a, tenv, car))
    if k == 're':
        return '(%s).re' % show(t[1], 'C', tenv, car)
    if k == 'mod':
        return '(pmod %s %s)' % (show(t[1], 'R', tenv, car), show(t[2], 'R', tenv, car))
    if k == 'let':
        t2 = dict(tenv)
        t2[t[1]] = typeof(t[2], tenv)
        return '(let %s := %s;\n    %s)' % (FM.ident(t[1]), show(t[2], t2[t[1]], tenv, car), show(t[3], want, t2, car))
    raise TranslationError('cannot print %r' % (t, ))


def uses(t, kinds):
    """Does the term contain a node of one of the given kinds / a call of one of the given names?"""
    if not isinstance(t, tuple):
        return False
    if t[0] in kinds or (t[0] == 'call' and ('call:' + t[1]) in kinds):
        return True
    return any(uses(c, kinds) for c in t[1:] if isinstance(c, tuple))


def collect_lits(t, out):
    if not isinstance(t, tuple):
        return
    if t[0] == 'lit':
        if t not in out:
            out.append(t)
        return
    for c in t[1:]:
        collect_lits(c, out)


# ---------------------------------------------------------------------------------------------------------
class Fun:
    """One translated function."""
    def __init__(self, lean, key, origin, params, term, lineno):
        self.lean, self.key, self.origin, self.params, self.term, self.lineno = lean, key, origin, params, term, lineno
        if typeof(term, {}) != 'R':
            raise TranslationError('%s returns a complex value' % origin)
        self.complex = uses(term, {'cnum'})
        self.lits = []
        collect_lits(term, self.lits)


def translate_callable(node, key, lean, origin, src):
    """`node` is an inner FunctionDef or a Lambda stored under `key`."""
    if key not in SIGNATURES:
        raise TranslationError('unknown key %r (no signature known)' % key)
    sig = SIGNATURES[key]
    a = node.args
    if a.vararg or a.kwarg or a.kwonlyargs or a.defaults or a.posonlyargs or getattr(a, 'kw_defaults', []):
        raise TranslationError('%s: unsupported parameter list' % origin)
    names = [x.arg for x in a.args]
    if len(names) != len(sig):
        raise TranslationError('%s: %d parameters, the key %r has %d' % (origin, len(names), key, len(sig)))
    FM._counter[0] = 0
    if sig == ['elems']:
        return translate_linform(node, names[0], key, lean, origin, src)
    env, params = {}, []
    for n, kind in zip(names, sig):
        if kind == 'vec2':
            env[n] = ('vec', n)
            params += [n + '0', n + '1']
        else:
            env[n] = ('var', n)
            params.append(n)
    ctx = Ctx(src)

    def inner(_node, _env):
        raise TranslationError('%s returns a closure' % origin)

    body = [ast.Return(value=node.body)] if isinstance(node, ast.Lambda) else node.body
    term = FM.block(body, env, ctx, inner)
    if ctx.asserts:
        raise TranslationError('%s: assertions are not part of the problems.py fragment' % origin)
    return Fun(lean, key, origin, params, term, node.lineno)


def translate_linform(node, elems, key, lean, origin, src):
    """lambda elems: np.array([<expr> for elem in elems])  ->  the value for one element."""
    if not isinstance(node, ast.Lambda):
        raise TranslationError('%s: expected a lambda' % origin)
    b = node.body
    ok = (isinstance(b, ast.Call) and isinstance(b.func, ast.Attribute) and isinstance(b.func.value, ast.Name) and
          b.func.value.id == 'np' and b.func.attr == 'array' and len(b.args) == 1 and not b.keywords and
          isinstance(b.args[0], ast.ListComp))
    if not ok:
        raise TranslationError('%s: expected np.array([... for elem in elems])' % origin)
    lc = b.args[0]
    g = lc.generators
    if not (len(g) == 1 and isinstance(g[0].target, ast.Name) and isinstance(g[0].iter, ast.Name) and g[0].iter.id == elems and
            not g[0].ifs and not g[0].is_async):
        raise TranslationError('%s: unsupported comprehension' % origin)
    ctx = Ctx(src, elem_var=g[0].target.id)
    term = FM.expr(lc.elt, {}, ctx)
    return Fun(lean, key, origin, list(ELEM_PARAMS), term, node.lineno)


def lean_key(key):
    return key.replace('-', '_')


def translate_factory(fn, src):
    """Returns [(key, Fun)] in the order of the returned dict literal."""
    if fn.args.args or fn.args.vararg or fn.args.kwarg or fn.args.kwonlyargs:
        raise TranslationError('factory %s takes parameters' % fn.name)
    defs = {}
    body = list(fn.body)
    if body and isinstance(body[0], ast.Expr) and isinstance(body[0].value, ast.Constant) and isinstance(body[0].value.value, str):
        body = body[1:]
    if not body or not isinstance(body[-1], ast.Return) or not isinstance(body[-1].value, ast.Dict):
        raise TranslationError('factory %s does not end in `return {...}`' % fn.name)
    for st in body[:-1]:
        if not isinstance(st, ast.FunctionDef) or st.decorator_list:
            raise TranslationError('factory %s: unsupported statement %s' % (fn.name, type(st).__name__))
        if st.name in defs:
            raise TranslationError('factory %s: %s defined twice' % (fn.name, st.name))
        defs[st.name] = st
    out, seen = [], set()
    d = body[-1].value
    for k, v in zip(d.keys, d.values):
        if not (isinstance(k, ast.Constant) and isinstance(k.value, str)):
            raise TranslationError('factory %s: non-literal key' % fn.name)
        key = k.value
        if key in seen:
            raise TranslationError('factory %s: key %r twice' % (fn.name, key))
        seen.add(key)
        if isinstance(v, ast.Name) and v.id in defs:
            node, lean = defs[v.id], '%s_%s' % (fn.name, v.id)
            origin = '%s.%s' % (fn.name, v.id)
        elif isinstance(v, ast.Lambda):
            node, lean = v, '%s_%s' % (fn.name, lean_key(key))
            origin = "%s()['%s'] (lambda)" % (fn.name, key)
        else:
            raise TranslationError('factory %s: value of %r is neither an inner def nor a lambda' % (fn.name, key))
        out.append((key, translate_callable(node, key, lean, origin, src)))
    used = {v.id for v in d.values if isinstance(v, ast.Name)}
    for n in defs:
        if n not in used:
            raise TranslationError('factory %s: inner function %s is not returned' % (fn.name, n))
    return out


# ---------------------------------------------------------------------------------------------------------
# problem_helper: the dispatch table as a decision tree
#   ('err', tag) | ('ok', [updates]) | ('if', var, literal, then, else)      update = [(key, leanname)]
def str_lit(node):
    return node.value if isinstance(node, ast.Constant) and isinstance(node.value, str) else None


def translate_helper(fn, src, factories, funs):
    params = [a.arg for a in fn.args.args]
    if params != ['problem', 'domain'] or fn.args.vararg or fn.args.kwarg or fn.args.defaults:
        raise TranslationError('problem_helper: parameters %s' % params)
    body = list(fn.body)
    asserts = []
    while body and isinstance(body[0], ast.Assert):
        t = body[0].test
        ok = (isinstance(t, ast.Compare) and len(t.ops) == 1 and isinstance(t.ops[0], ast.In) and isinstance(t.left, ast.Name) and
              t.left.id in params and isinstance(t.comparators[0], (ast.List, ast.Tuple)) and
              all(str_lit(e) is not None for e in t.comparators[0].elts))
        if not ok:
            raise TranslationError('problem_helper: unsupported assertion %s' % ast.get_source_segment(src, t))
        asserts.append((t.left.id, [str_lit(e) for e in t.comparators[0].elts], ast.get_source_segment(src, t)))
        body = body[1:]
    st = body[0] if body else None
    if not (isinstance(st, ast.Assign) and len(st.targets) == 1 and isinstance(st.targets[0], ast.Name) and
            isinstance(st.value, ast.Dict) and not st.value.keys):
        raise TranslationError('problem_helper: expected `result = {}` after the assertions')
    res = st.targets[0].id
    lam_count = [0]

    def stmts(ss, acc):
        """Translates a statement list executed with the updates `acc` already applied."""
        if not ss:
            raise TranslationError('problem_helper: path without return')
        s, rest = ss[0], ss[1:]
        if isinstance(s, ast.Return):
            if not (isinstance(s.value, ast.Name) and s.value.id == res):
                raise TranslationError('problem_helper: returns something other than %s' % res)
            return ('ok', acc)
        if isinstance(s, ast.Assert):
            if isinstance(s.test, ast.Constant) and s.test.value is False:
                return ('err', 'assert:False')
            raise TranslationError('problem_helper: unsupported assertion %s' % ast.get_source_segment(src, s.test))
        if isinstance(s, ast.Expr) and isinstance(s.value, ast.Call):
            c = s.value
            if isinstance(c.func, ast.Name) and c.func.id == 'print':
                return stmts(rest, acc)  # no effect on the returned dictionary
            if (isinstance(c.func, ast.Attribute) and isinstance(c.func.value, ast.Name) and c.func.value.id == res and
                    c.func.attr == 'update' and len(c.args) == 1 and not c.keywords and isinstance(c.args[0], ast.Call) and
                    isinstance(c.args[0].func, ast.Name) and not c.args[0].args and not c.args[0].keywords):
                f = c.args[0].func.id
                if f not in factories:
                    raise TranslationError('problem_helper: update from unknown factory %s' % f)
                return stmts(rest, acc + [[(k, fun.lean) for k, fun in factories[f]]])
            raise TranslationError('problem_helper: unsupported call %s' % ast.get_source_segment(src, s))
        if isinstance(s, ast.Assign):
            t = s.targets[0] if len(s.targets) == 1 else None
            if not (isinstance(t, ast.Subscript) and isinstance(t.value, ast.Name) and t.value.id == res and
                    str_lit(t.slice) is not None and isinstance(s.value, ast.Lambda)):
                raise TranslationError('problem_helper: unsupported assignment %s' % ast.get_source_segment(src, s))
            key = str_lit(t.slice)
            branch = cur_branch[-1] if cur_branch else 'helper'
            lean = '%s_%s' % (branch.lower(), lean_key(key))
            if any(f.lean == lean for f in funs):
                lam_count[0] += 1
                lean = '%s_%d' % (lean, lam_count[0])
            fun = translate_callable(s.value, key, lean, "problem_helper('%s', ·)['%s'] (lambda)" % (branch, key), src)
            funs.append(fun)
            return stmts(rest, acc + [[(key, fun.lean)]])
        if isinstance(s, ast.If):
            t = s.test
            ok = (isinstance(t, ast.Compare) and len(t.ops) == 1 and isinstance(t.ops[0], ast.Eq) and isinstance(t.left, ast.Name) and
                  t.left.id in params and str_lit(t.comparators[0]) is not None)
            if not ok:
                raise TranslationError('problem_helper: unsupported condition %s' % ast.get_source_segment(src, t))
            var, lit = t.left.id, str_lit(t.comparators[0])
            if var == 'problem':
                cur_branch.append(lit)
            a = stmts(list(s.body) + rest, acc)
            if var == 'problem':
                cur_branch.pop()
            b = stmts(list(s.orelse) + rest, acc)
            return ('if', var, lit, a, b)
        raise TranslationError('problem_helper: unsupported statement %s' % type(s).__name__)

    cur_branch = []
    tree = stmts(body[1:], [])
    return asserts, tree


# ---------------------------------------------------------------------------------------------------------
def collect(repo):
    path = os.path.join(repo, SOURCE)
    src = open(path).read()
    tree = ast.parse(src)
    factories, funs, helper = {}, [], None
    imports = []
    for st in tree.body:
        if isinstance(st, ast.Import):
            imports += [(a.name, a.asname) for a in st.names]
        elif isinstance(st, ast.ImportFrom):
            imports += [('%s.%s' % (st.module, a.name), a.asname or a.name) for a in st.names]
        elif isinstance(st, ast.FunctionDef) and st.name == 'problem_helper':
            if helper is not None:
                raise TranslationError('problem_helper defined twice')
            helper = st
        elif isinstance(st, ast.FunctionDef):
            if st.name in factories or st.decorator_list:
                raise TranslationError('factory %s defined twice / decorated' % st.name)
            factories[st.name] = translate_factory(st, src)
            funs += [f for _, f in factories[st.name]]
        elif isinstance(st, ast.Expr) and isinstance(st.value, ast.Constant) and isinstance(st.value.value, str):
            continue
        else:
            raise TranslationError('unsupported module-level statement %s (line %d)' % (type(st).__name__, st.lineno))
    # the meaning of the free names of the formulas
    want = {('numpy', 'np'), ('scipy.special.erf', 'erf'), ('scipy.special.erfc', 'erfc')}
    if set(imports) != want:
        raise TranslationError('imports %s differ from the expected %s' % (sorted(imports), sorted(want)))
    if helper is None:
        raise TranslationError('problem_helper not found')
    asserts, tree_ = translate_helper(helper, src, factories, funs)
    names = [f.lean for f in funs]
    if len(set(names)) != len(names):
        raise TranslationError('duplicate generated names %s' % names)
    return dict(funs=funs, factories=factories, asserts=asserts, tree=tree_)


# ---------------------------------------------------------------------------------------------------------
HEADER_Q = '''/- GENERATED by translate/problemdefs.py from problems.py of /repo -- do not edit. -/
set_option linter.unusedVariables false
namespace Stbem.Problems.Q

/-- Gaussian rationals: the complex carrier of the executable version -/
structure CQ where
  re : Rat
  im : Rat
deriving DecidableEq, Repr

namespace CQ
def ofRat (x : Rat) : CQ := ⟨x, 0⟩
instance : Add CQ := ⟨fun a b => ⟨a.re + b.re, a.im + b.im⟩⟩
instance : Sub CQ := ⟨fun a b => ⟨a.re - b.re, a.im - b.im⟩⟩
instance : Neg CQ := ⟨fun a => ⟨-a.re, -a.im⟩⟩
instance : Mul CQ := ⟨fun a b => ⟨a.re * b.re - a.im * b.im, a.re * b.im + a.im * b.re⟩⟩
def inv (a : CQ) : CQ := let n := a.re * a.re + a.im * a.im; ⟨a.re / n, (-a.im) / n⟩
instance : Div CQ := ⟨fun a b => a * inv b⟩
def npow (a : CQ) : Nat → CQ
  | 0 => ⟨1, 0⟩
  | n + 1 => npow a n * a
instance : HPow CQ Nat CQ := ⟨npow⟩
end CQ

/-- special functions and `np.pi` as parameters (rational stand-ins in the correspondence run); `cexp cerf cerfc` are
`np.exp`, `scipy.special.erf/erfc` at complex arguments -/
structure Fns where
  exp : Rat → Rat
  sqrt : Rat → Rat
  sin : Rat → Rat
  erf : Rat → Rat
  erfc : Rat → Rat
  pi : Rat
  cexp : CQ → CQ
  cerf : CQ → CQ
  cerfc : CQ → CQ

/-- Python's `x % y` (floored modulus; for `y > 0` the representative in `[0, y)`) -/
def pmod (x y : Rat) : Rat := x - y * (((x / y).floor : Int) : Rat)
'''

HEADER_R = '''/- GENERATED by translate/problemdefs.py from problems.py of /repo -- do not edit. -/
import Mathlib.Data.Complex.Basic
import Mathlib.Algebra.Order.Archimedean.Real.Basic
set_option linter.unusedVariables false
namespace Stbem.Problems.R

/-- special functions and `np.pi` as parameters (their laws are hypotheses of the theorems); `cexp cerf cerfc` are
`np.exp`, `scipy.special.erf/erfc` at complex arguments -/
structure Fns where
  exp : ℝ → ℝ
  sqrt : ℝ → ℝ
  sin : ℝ → ℝ
  erf : ℝ → ℝ
  erfc : ℝ → ℝ
  pi : ℝ
  cexp : ℂ → ℂ
  cerf : ℂ → ℂ
  cerfc : ℂ → ℂ

/-- Python's `x % y` (floored modulus; for `y > 0` the representative in `[0, y)`) -/
noncomputable def pmod (x y : ℝ) : ℝ := x - y * ((⌊x / y⌋ : ℤ) : ℝ)
'''


def lean_str(s):
    return '"%s"' % s.replace('\\', '\\\\').replace('"', '\\"')


def show_tree(t, ind):
    pad = '  ' * ind
    if t[0] == 'err':
        return '%s.error %s' % (pad, lean_str(t[1]))
    if t[0] == 'ok':
        e = '[]'
        for upd in t[1]:
            e = '(update %s [%s])' % (e, ', '.join('(%s, %s)' % (lean_str(k), lean_str(n)) for k, n in upd))
        return '%s.ok %s' % (pad, e)
    _, var, lit, a, b = t
    return '%sif %s = %s then\n%s\n%selse\n%s' % (pad, var, lean_str(lit), show_tree(a, ind + 1), pad, show_tree(b, ind + 1))


def emit(tr):
    funs = tr['funs']
    q, r = [HEADER_Q], [HEADER_R]
    for f in funs:
        doc = '/-- `%s` of `%s` (line %d), stored under the key `%s`%s -/' % (
            f.origin, SOURCE, f.lineno, f.key, '; parameters: one element\'s `h_t h_x time_interval[0] time_interval[1]`'
            if f.params == ELEM_PARAMS else '')
        if f.lits:
            doc = doc[:-3] + ('; literal quotients evaluated by Python in binary64: %s (this file: the %s value) -/' %
                              (', '.join('`%s`' % l[3] for l in f.lits), '%s'))
        ps = ' '.join(FM.ident(p) for p in f.params)
        docq, docr = (doc % 'executed', doc % 'ideal') if f.lits else (doc, doc)
        q.append('%s\ndef %s (S : Fns) (%s : Rat) : Rat :=\n  %s\n' % (docq, f.lean, ps, show(f.term, 'R', {}, CARRIER_Q)))
        r.append('%s\nnoncomputable def %s (S : Fns) (%s : ℝ) : ℝ :=\n  %s\n' % (docr, f.lean, ps, show(f.term, 'R', {}, CARRIER_R)))
    # table of translated functions, evaluation by name, dispatch table: executable part only
    q.append('/-- name, key, arity, uses complex arithmetic -- of every translated function -/\n'
             'def table : List (String × String × Nat × Bool) := [%s]\n' %
             ',\n  '.join('(%s, %s, %d, %s)' % (lean_str(f.lean), lean_str(f.key), len(f.params), 'true' if f.complex else 'false')
                          for f in funs))
    q.append('/-- functions of problems.py that are NOT translated (none: a construct outside the fragment is an error) -/\n'
             'def notTranslated : List String := []\n')
    q.append('/-- literal quotients that Python evaluates in binary64 before they meet an argument: (function, source text, '
             'ideal value, executed value).\nThe `Rat` definitions above use the executed value (what runs), the `ℝ` definitions '
             'of `ProblemsR.lean` the ideal one. -/\n'
             'def roundedLiterals : List (String × String × Rat × Rat) := [%s]\n' %
             ',\n  '.join('(%s, %s, %s, %s)' % (lean_str(f.lean), lean_str(l[3]), FM.lean_num(l[1][0], l[1][1], 'Rat'),
                                               FM.lean_num(l[2][0], l[2][1], 'Rat')) for f in funs for l in f.lits))
    disp = ['def evalByName (S : Fns) (name : String) (args : List Rat) : Option Rat :=', '  match name, args with']
    for f in funs:
        vs = ['a%d' % i for i in range(len(f.params))]
        disp.append('  | %s, [%s] => some (%s S %s)' % (lean_str(f.lean), ', '.join(vs), f.lean, ' '.join(vs)))
    disp.append('  | _, _ => none\n')
    q.append('\n'.join(disp))
    q.append('/-- `dict.update` / `d[k] = v` on an insertion-ordered dictionary -/\n'
             'def update1 (d : List (String × String)) (kv : String × String) : List (String × String) :=\n'
             '  if d.any (fun e => e.1 == kv.1) then d.map (fun e => if e.1 == kv.1 then kv else e) else d ++ [kv]\n'
             'def update (d : List (String × String)) (u : List (String × String)) : List (String × String) :=\n'
             '  u.foldl update1 d\n')
    for var, lits, text in tr['asserts']:
        q.append('/-- `assert %s` -/\ndef %sNames : List String := [%s]\n' % (text, var, ', '.join(lean_str(s) for s in lits)))
    h = ['/-- `problem_helper`: which generated function is stored under which key (in dictionary order), or the failed '
         'assertion -/', 'def helper (problem domain : String) : Except String (List (String × String)) :=']
    ind = 1
    for var, lits, text in tr['asserts']:
        h.append('%sif ¬ (%s ∈ %sNames) then .error %s else' % ('  ' * ind, var, var, lean_str('assert:' + text)))
    h.append(show_tree(tr['tree'], ind))
    q.append('\n'.join(h) + '\n')
    q.append('end Stbem.Problems.Q\n')
    r.append('end Stbem.Problems.R\n')
    return '\n'.join(q), '\n'.join(r)


def generate(repo, gen_dir, write):
    tr = collect(repo)
    q, r = emit(tr)
    write(os.path.join(gen_dir, 'ProblemsQ.lean'), q)
    write(os.path.join(gen_dir, 'ProblemsR.lean'), r)
    return tr


if __name__ == '__main__':
    sys.path.insert(0, os.path.join(os.path.dirname(os.path.abspath(__file__)), '..'))
    from harness.common import write_if_changed
    gen = os.path.join(os.path.dirname(os.path.abspath(__file__)), '..', 'lean', 'Stbem', 'Gen')
    tr = generate(sys.argv[1] if len(sys.argv) > 1 else os.environ.get('STBEM_REPO', '/repo'), gen, write_if_changed)
    for f in tr['funs']:
        print(f.lean, f.params, 'key', f.key, 'complex' if f.complex else '')
    print(tr['asserts'])
