#!/venv/bin/python
"""In-fragment mutations for translate/slrest.py: each textual mutation of a scratch copy of the repository must either be
REJECTED by the translator (TranslationError) or be accepted and BREAK the build of the tie modules
(Props/SLRestTie.lean, Props/SLRestResidual.lean).  A mutation that is accepted and still builds is reported as SURVIVED
(it must then be value-preserving to be acceptable).

usage: tools/slrest_mutations.py [<stable repo>]   (default $STBEM_REPO or /tmp/build/repo_head); restores Gen/SLRest.lean."""
import os
import shutil
import subprocess
import sys
import tempfile

V = os.path.dirname(os.path.dirname(os.path.abspath(__file__)))
sys.path.insert(0, os.path.join(V, 'translate'))
sys.path.insert(0, V)

MUTATIONS = [
    # (file, old, new, what)
    ('src/single_layer.py', 'if N * M < 100:', 'if N * M <= 100:', 'threshold <= instead of <'),
    ('src/single_layer.py', 'M // (16 * cpu) + 1', 'M // (8 * cpu) + 1', 'chunk size factor'),
    ('src/single_layer.py', 'if not use_mp:', 'if use_mp:', 'serial / pool exchanged'),
    ('src/single_layer.py', "str(elems_trial) +\n                 str((self.quad_order, self.pw_exact))", "str(elems_trial)", 'configuration dropped from the hashed text (finding F7)'),
    ('src/single_layer.py', 'self.mesh.gamma_space, N,\n                                                      M, md5)', 'self.mesh.gamma_space, M,\n                                                      N, md5)', 'N and M exchanged in the file name'),
    ('src/single_layer.py', '            elems_trial = elems_test\n', '            elems_trial = list(self.mesh.leaf_elements)\n', 'default of elems_trial'),
    ('src/single_layer.py', '                    mat[i, j] = self.bilform(elem_trial, elem_test)\n            return mat', '                    mat[i, j] = self.bilform(elem_test, elem_trial)\n            return mat', 'inline path: arguments of bilform exchanged'),
    ('src/single_layer.py', 'h = min(abs(a - x), abs(b - x))\n            k = max(abs(a - x), abs(b - x))', 'h = max(abs(a - x), abs(b - x))\n            k = min(abs(a - x), abs(b - x))', 'evaluate_exact: h and k exchanged'),
    ('src/single_layer.py', 'elif a < x < b:', 'elif a <= x < b:', 'evaluate_exact: left end point treated as interior'),
    ('src/single_layer.py', "t, *elem_trial.time_interval, x - a) + spacetime_evaluated_1(", "t, *elem_trial.time_interval, x - a) - spacetime_evaluated_1(", 'evaluate_exact: sign between the two halves'),
    ('src/single_layer.py', 'G_time_parametrized = lambda y: G_time(x - elem_trial.gamma_space(y))', 'G_time_parametrized = lambda y: G_time(elem_trial.gamma_space(y))', 'potential: kernel at gamma(y) instead of x - gamma(y)'),
    ('src/single_layer.py', 'vec[j] = self.evaluate(elem_trial, t, x_hat, x)', 'vec[j] = self.evaluate(elem_trial, x_hat, t, x)', 'evaluate_vector: t and x_hat exchanged'),
    ('src/error_estimator.py', 'result[i] -= np.squeeze(g(t, x.reshape(2, 1)))', 'result[i] += np.squeeze(g(t, x.reshape(2, 1)))', 'residual: sign of g'),
    ('src/error_estimator.py', 'result[i] += np.squeeze(M0u0(t, x.reshape(2, 1)))', 'result[i] -= np.squeeze(M0u0(t, x.reshape(2, 1)))', 'residual: sign of M0u0'),
    ('src/error_estimator.py', 'if t <= elem_trial.time_interval[0]: continue', 'if t < elem_trial.time_interval[0]: continue', 'residual: guard < instead of <= (value preserving: evaluate returns 0 at t = t0)'),
    ('src/error_estimator.py', 'if t <= elem_trial.time_interval[0]: continue', 'if t <= elem_trial.time_interval[1]: continue', 'residual: guard at the END of the time interval'),
    ('src/error_estimator.py', 'if SL_exact_eval and elem_trial.gamma_space is gamma:', 'if SL_exact_eval or elem_trial.gamma_space is gamma:', 'residual: switch `or`'),
    ('src/error_estimator.py', 'VPhi += Phi[j] * SL.evaluate(elem_trial, t, x_hat,', 'VPhi -= Phi[j] * SL.evaluate(elem_trial, t, x_hat,', 'residual: sign of one accumulation'),
    ('example.py', 'rhs = -M0.linform_vector(elems=elems, use_mp=True)', 'rhs = M0.linform_vector(elems=elems, use_mp=True)', 'example: sign of the M0 load'),
    ('example.py', 'rhs += g_linform(elems)', 'rhs -= g_linform(elems)', 'example: sign of the g load'),
    ('example.py', 'mat = SL.bilform_matrix(elems, elems, use_mp=True)', 'mat = SL.bilform_matrix(elems, elems, use_mp=False)', 'example: serial assembly (value preserving: C17)'),
    ('example.py', 'Phi = np.linalg.solve(mat, rhs)', 'Phi = np.linalg.solve(mat.T, rhs)', 'example: transposed system'),
]


def main():
    import slrest
    from harness.common import write_if_changed
    stable = sys.argv[1] if len(sys.argv) > 1 else os.environ.get('STBEM_REPO', '/tmp/build/repo_head')
    gen = os.path.join(V, 'lean', 'Stbem', 'Gen')
    tmp = tempfile.mkdtemp(prefix='slrest_mut_', dir='/tmp')
    rows = []
    try:
        for fn, old, new, what in MUTATIONS:
            repo = os.path.join(tmp, 'repo')
            shutil.rmtree(repo, ignore_errors=True)
            shutil.copytree(stable, repo, ignore=shutil.ignore_patterns('.git', 'data*', '__pycache__'))
            text = open(os.path.join(repo, fn)).read()
            if text.count(old) < 1:
                rows.append((what, 'NOT APPLICABLE (text not found)'))
                continue
            open(os.path.join(repo, fn), 'w').write(text.replace(old, new, 1))
            try:
                slrest.generate(repo, gen, write_if_changed)
            except slrest.TranslationError as exc:
                rows.append((what, 'rejected by the translator: %s' % str(exc)[:100]))
                continue
            p = subprocess.run(['lake', 'build', 'Stbem.Props.SLRestTie', 'Stbem.Props.SLRestResidual'], cwd=os.path.join(V, 'lean'),
                               stdout=subprocess.PIPE, stderr=subprocess.STDOUT, text=True)
            if p.returncode == 0:
                rows.append((what, 'SURVIVED (accepted, tie modules still build)'))
            else:
                bad = sorted({l.split(':')[1].split('/')[-1] + ':' + l.split(':')[2] for l in p.stdout.splitlines() if l.startswith('error: Stbem/')})
                rows.append((what, 'accepted, build of the tie breaks at %s' % ', '.join(bad[:4])))
    finally:
        slrest.generate(stable, gen, write_if_changed)
        subprocess.run(['lake', 'build', 'Stbem.Props.SLRestTie', 'Stbem.Props.SLRestResidual', 'stbem-driver'], cwd=os.path.join(V, 'lean'),
                       stdout=subprocess.PIPE, stderr=subprocess.STDOUT)
        shutil.rmtree(tmp, ignore_errors=True)
    for what, r in rows:
        print('%-90s %s' % (what, r))
    n_rej = sum(r.startswith('rejected') for _, r in rows)
    n_brk = sum(r.startswith('accepted') for _, r in rows)
    n_sur = sum(r.startswith('SURVIVED') for _, r in rows)
    print('%d mutations: %d rejected, %d accepted and break the tie, %d survived' % (len(rows), n_rej, n_brk, n_sur))


if __name__ == '__main__':
    main()
