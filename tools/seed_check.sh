#!/bin/bash
# usage: tools/seed_check.sh <seed-name> "<checks>" [tier]   -- applies seeded/<name>/patch.diff to /repo, runs the checks, reverts
set -u
NAME=$1; CHECKS=$2; TIER=${3:-quick}
OUT=/verif/seeded/$NAME
cd /verif
git -C /repo apply $OUT/patch.diff || { echo "cannot apply to /repo"; exit 5; }
RES=""
for c in $CHECKS; do
  ./check $c --tier $TIER > $OUT/check_$c.log 2>&1; rc=$?
  keys=$(grep '^VIOLATION' $OUT/check_$c.log | sed 's/.*replays\///; s/_[0-9]*\.json.*//' | sort | uniq -c | sort -rn | head -3 | awk '{print $2"(x"$1")"}' | tr '\n' ' ')
  nf=$(grep -c 'no-failing-input-found' $OUT/check_$c.log)
  RES="$RES $c:rc=$rc:[$keys]$( [ $nf -gt 0 ] && echo ':no-failing-input-found')"
done
git -C /repo checkout -- . ; git -C /repo status --short | head -3
echo "$NAME checks:$RES"
python3 - "$NAME" "$RES" <<'PY'
import json, sys
name, res = sys.argv[1:3]
out='/verif/seeded/%s' % name
try: orig=json.load(open(out+'/meta.orig.json'))
except Exception:
    try: orig=json.load(open(out+'/meta.json'))
    except Exception: orig={}
try: conf=json.load(open(out+'/confirm.json'))
except Exception: conf={}
meta=dict(seed=name, breaks_property=orig.get('property', orig.get('breaks_property')), summary=orig.get('summary'), needs=orig.get('needs'),
          confirmed=conf or orig.get('confirmed'),
          ran='tools/seed_confirm.sh (scratch worktree of /repo HEAD: git apply, demo.py with/without the change, pytest on the stable test files) and tools/seed_check.sh (git -C /repo apply, ./check <ids>, git -C /repo checkout -- .)',
          check_results=res.strip())
json.dump(meta, open(out+'/meta.json','w'), indent=1)
PY
