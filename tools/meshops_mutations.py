#!/venv/bin/python
"""Sensitivity test of translate/meshops.py + Props/MeshOpsTie*.lean (development tool, not part of ./check).

Applies in-fragment mutations to a scratch copy of the repository under test (STBEM_REPO, default /repo; never edited):
for each one the translator must accept the text and `lake build` of the equality theorems must FAIL.  The generated
file is restored at the end.  Usage: STBEM_REPO=<checkout> /venv/bin/python tools/meshops_mutations.py"""
import os, shutil, subprocess, sys, tempfile
V = os.path.dirname(os.path.dirname(os.path.abspath(__file__)))
REPO0 = os.environ.get('STBEM_REPO', '/repo')
MUTS = [
 ('iso: first phase sorted by level_space', "        marked.sort(key=lambda elem: elem.level_time)\n        children_time = []", "        marked.sort(key=lambda elem: elem.level_space)\n        children_time = []"),
 ('iso: second loop runs over marked', "        for elem in children_time:\n            assert not elem.children\n            self.refine_space(elem)", "        for elem in marked:\n            assert not elem.children\n            self.refine_space(elem)"),
 ('iso: children_time not sorted', "        children_time.sort(key=lambda elem: elem.level_space)\n", ""),
 ('aniso: no replacement of time-refined elements', "            if elem.children:\n                marked_space.extend(elem.children)\n            else:\n                marked_space.append(elem)", "            marked_space.append(elem)"),
 ('aniso: space phase before time phase sort dropped', "        marked[0].sort(key=lambda elem: elem.level_time)\n", ""),
 ('aniso: ascending instead of descending', "errs.sort(reverse=True, key=lambda tup: tup[0])", "errs.sort(key=lambda tup: tup[0])"),
 ('grading: continue replaced by assert', "                if elem.children: continue\n", "                assert not elem.children\n"),
 ('grading: > instead of >= in the time mark', "if elem.h_t / K >= elem.h_x**sigma:", "if elem.h_t / K > elem.h_x**sigma:"),
 ('uniform_refine: no sort in the space phase', "        leaves = sorted(list(self.leaf_elements),\n                        key=lambda elem: elem.level_space)", "        leaves = list(self.leaf_elements)"),
 ('uniform_refine_space: sorted', "        leaves = list(self.leaf_elements)\n        for elem in leaves:\n            self.refine_space(elem)\n\n    def dorfler_refine_isotropic", "        leaves = sorted(list(self.leaf_elements), key=lambda elem: elem.level_space)\n        for elem in leaves:\n            self.refine_space(elem)\n\n    def dorfler_refine_isotropic"),
 ('refine: space children before time', "        for child in self.refine_time(elem):\n            result.extend(self.refine_space(child))", "        for child in self.refine_space(elem):\n            result.extend(self.refine_time(child))"),
 ('bulk: break test before the append', "            marked.append(elems[i])\n            cumsum += eta_sqr[i]\n            if cumsum >= eta_tot_sqr * theta**2:\n                break", "            if cumsum >= eta_tot_sqr * theta**2:\n                break\n            marked.append(elems[i])\n            cumsum += eta_sqr[i]"),
 ('Prolongate: no climbing (parent assert only)', "            assert elem_coarse.parent\n            elem_coarse = elem_coarse.parent", "            assert elem_coarse.parent\n            elem_coarse = elem_fine.parent"),
 ('constructor: guard counts grid points', "if self.glue_space and len(initial_space_mesh) - 1 < 3:", "if self.glue_space and len(initial_space_mesh) < 3:"),
 ('constructor: closed right end of the piece range', "<= elem.vertices[\n                        0].x < gamma_space.pw_start[i + 1]:", "<= elem.vertices[\n                        0].x <= gamma_space.pw_start[i + 1]:"),
]
repo = os.path.join(tempfile.mkdtemp(prefix='meshops_mut_'), 'repo')
src0 = open(os.path.join(REPO0, 'src/mesh.py')).read()
sys.path.insert(0, os.path.join(V, 'translate'))
import meshops
mods = ['Stbem.Props.MeshOpsTie', 'Stbem.Props.MeshOpsTieC20', 'Stbem.Props.MeshOpsTieC18']
gen = os.path.join(V, 'lean/Stbem/Gen/MeshOps.lean')
orig = open(gen).read()
for name, a, b in MUTS:
    if src0.count(a) != 1:
        print('%-55s: PATTERN NOT FOUND ONCE (%d)' % (name, src0.count(a)))
        continue
    shutil.rmtree(repo, ignore_errors=True)
    shutil.copytree(REPO0, repo, ignore=shutil.ignore_patterns('.git', '__pycache__', '*.npy'))
    open(os.path.join(repo, 'src/mesh.py'), 'w').write(src0.replace(a, b))
    try:
        text, _ = meshops.generate_text(repo)
    except meshops.TranslationError as e:
        print('%-55s: translator rejects: %s' % (name, str(e)[:90]))
        continue
    if text == orig:
        print('%-55s: generated text UNCHANGED (!!)' % name)
        continue
    open(gen, 'w').write(text)
    p = subprocess.run(['lake', 'build'] + mods, cwd=os.path.join(V, 'lean'), stdout=subprocess.PIPE, stderr=subprocess.STDOUT, text=True)
    errs = [l for l in p.stdout.splitlines() if l.startswith('error:') and '.lean:' in l]
    print('%-55s: build rc=%d %s' % (name, p.returncode, ' | '.join(sorted({e.split(':')[1].strip().split('/')[-1] + ':' + e.split(':')[2] for e in errs}))[:120]))
open(gen, 'w').write(orig)
shutil.rmtree(repo, ignore_errors=True)
p = subprocess.run(['lake', 'build'] + mods + ['Stbem.Props.MeshOpsTieC06', 'Stbem.Props.MeshOpsTieC19', 'stbem-driver'], cwd=os.path.join(V, 'lean'), stdout=subprocess.PIPE, stderr=subprocess.STDOUT, text=True)
print('restored; build rc=%d' % p.returncode)
