#!/venv/bin/python
"""Sensitivity test of translate/paramgen.py + Props/ParamTie*.lean (development tool, not part of ./check).

Applies in-fragment mutations to a scratch copy of src/parametrization.py of the repository under test (STBEM_REPO, default
/repo; never edited): for each one the translator must accept the text and `lake build` of the equality theorems must FAIL.
Out-of-fragment mutations must raise TranslationError.  The generated files are restored at the end.
Usage: STBEM_REPO=<checkout> /venv/bin/python tools/paramgen_mutations.py"""
import os, subprocess, sys, tempfile
V = os.path.dirname(os.path.dirname(os.path.abspath(__file__)))
REPO0 = os.environ.get('STBEM_REPO', '/repo')
IN_FRAGMENT = [
 ('line: offset added instead of subtracted', "        return (x_hat - x_start) * direct + a", "        return (x_hat + x_start) * direct + a"),
 ('line: direction not normalised', "    direct = (b - a) / norm\n\n    direct = np.copy", "    direct = (b - a) / 1\n\n    direct = np.copy"),
 ('line: base point b', "    a = np.copy(a.reshape(2, 1))", "    a = np.copy(b.reshape(2, 1))"),
 ('eval: < instead of <= at the right end', "                            & (x_hat <= self.pw_start[i + 1]))", "                            & (x_hat < self.pw_start[i + 1]))"),
 ('eval: < instead of <= at the left end', "            condlist.append((self.pw_start[i] <= x_hat)", "            condlist.append((self.pw_start[i] < x_hat)"),
 ('eval: range assertion removed', "        assert np.all((0 <= x_hat) & (x_hat <= self.gamma_length))\n", ""),
 ('eval: shortcut takes the wrong test', "        if len(self.pw_gamma) == 1:", "        if len(self.pw_gamma) == 2:"),
 ('init: gamma_length >= 0', "assert self.pw_start[0] == 0 and self.gamma_length > 0", "assert self.pw_start[0] == 0 and self.gamma_length >= 0"),
 ('init: closed default False', "def __init__(self, pw_start, pw_gamma, closed=True):", "def __init__(self, pw_start, pw_gamma, closed=False):"),
 ('init: finite-difference step 1e-3', "def central_derivative(gamma, x, h=1e-5):", "def central_derivative(gamma, x, h=1e-3):"),
 ('init: samples from 1e-3', "np.linspace(1e-4, self.gamma_length - 1e-4)", "np.linspace(1e-3, self.gamma_length - 1e-4)"),
 ('polygon: break points accumulate without the start', "            pw_start.append(length + pw_start[i])", "            pw_start.append(length)"),
 ('polygon: loop misses the last side', "        for i in range(len(vertices) - 1):", "        for i in range(len(vertices) - 2):"),
 ('polygon: closing test on the second vertex', "            assert (np.all(vertices[0] == vertices[-1]))", "            assert (np.all(vertices[1] == vertices[-1]))"),
 ('polygon: pieces start at the running index', "            gamma, length = line(a, b, x_start=pw_start[i])", "            gamma, length = line(a, b, x_start=pw_start[0])"),
 ('LShape: two vertices swapped', "super().__init__(vertices=[v0, v1, v2, v3, v4, v5, v0])", "super().__init__(vertices=[v0, v1, v2, v3, v5, v4, v0])"),
 ('LShape: vertex moved', "        v2 = np.array([1, -1])\n        v3 = np.array([1, 1])\n        v4", "        v2 = np.array([2, -1])\n        v3 = np.array([2, 1])\n        v4"),
 ('UnitSquare: orientation reversed', "super().__init__(vertices=[v0, v1, v2, v3, v0])\n\n    def integrator(self, poly_order):\n        #scheme = quadpy.c2.product(quadpy.c1.gauss_legendre(poly_order))\n        scheme = ProductScheme2D(gauss_quadrature_scheme(poly_order))\n        return lambda f: scheme.integrate(f, 0, 1, 0, 1)", "super().__init__(vertices=[v0, v3, v2, v1, v0])\n\n    def integrator(self, poly_order):\n        #scheme = quadpy.c2.product(quadpy.c1.gauss_legendre(poly_order))\n        scheme = ProductScheme2D(gauss_quadrature_scheme(poly_order))\n        return lambda f: scheme.integrate(f, 0, 1, 0, 1)"),
 ('UnitInterval: declared closed', "super().__init__(vertices=[v0, v1], closed=False)", "super().__init__(vertices=[v0, v1])"),
 ('Circle: length pi', "        pw_start = [0, 2 * np.pi]", "        pw_start = [0, np.pi]"),
 ('circle: sin and cos exchanged', "    return np.vstack([np.cos(x_hat), np.sin(x_hat)])", "    return np.vstack([np.sin(x_hat), np.cos(x_hat)])"),
 ('PiSquare: one vertex not scaled', "        v2 = np.array([np.pi, np.pi])", "        v2 = np.array([np.pi, 1])"),
 ('repr changed', '        return "LShape"', '        return "Lshape"'),
]
OUT_OF_FRAGMENT = [
 ('while loop', "        pw_start = [0]\n", "        pw_start = [0]\n        while False:\n            pass\n"),
 ('lambda closure', "    return fun, norm\n", "    return (lambda x_hat: x_hat), norm\n"),
 ('argsort', "        return np.select(condlist, pw_eval)", "        return np.select(condlist, pw_eval)[:, np.argsort(x_hat)]"),
 ('wrap-around modulus', "        #x_hat = (x_hat + self.gamma_length) % self.gamma_length", "        x_hat = (x_hat + self.gamma_length) % self.gamma_length"),
 ('method renamed', "    def eval(self, x_hat):", "    def evaluate(self, x_hat):"),
 ('field stored by a subclass', "        super().__init__(vertices=[v0, v1], closed=False)", "        super().__init__(vertices=[v0, v1], closed=False)\n        self.extra = 1"),
 ('new import', "import numpy as np\n", "import numpy as np\nfrom bisect import bisect_right\n"),
]
tmp = tempfile.mkdtemp(prefix='paramgen_mut_')
os.makedirs(os.path.join(tmp, 'src'))
src0 = open(os.path.join(REPO0, 'src/parametrization.py')).read()
sys.path.insert(0, os.path.join(V, 'translate'))
import paramgen
mods = ['Stbem.Props.ParamTie', 'Stbem.Props.ParamTieCircle']
gdir = os.path.join(V, 'lean/Stbem/Gen')
orig = {f: open(os.path.join(gdir, f)).read() for f in ('ParamGen.lean', 'ParamGenR.lean')}


def put(text):
    open(os.path.join(tmp, 'src/parametrization.py'), 'w').write(text)


bad = 0
try:
    for name, a, b in OUT_OF_FRAGMENT:
        if src0.count(a) != 1:
            print('%-55s: PATTERN NOT FOUND ONCE (%d)' % (name, src0.count(a)))
            bad += 1
            continue
        put(src0.replace(a, b))
        try:
            q, r, st = paramgen.generate_text(tmp)
            paramgen.check_required(q, st)
            print('%-55s: ACCEPTED (expected TranslationError)' % name)
            bad += 1
        except paramgen.TranslationError as exc:
            print('%-55s: TranslationError (%s)' % (name, str(exc)[:70]))
    for name, a, b in IN_FRAGMENT:
        if src0.count(a) != 1:
            print('%-55s: PATTERN NOT FOUND ONCE (%d)' % (name, src0.count(a)))
            bad += 1
            continue
        put(src0.replace(a, b))
        try:
            q, r, st = paramgen.generate_text(tmp)
            paramgen.check_required(q, st)
        except paramgen.TranslationError as exc:
            print('%-55s: translator refuses (%s)' % (name, str(exc)[:70]))
            continue
        open(os.path.join(gdir, 'ParamGen.lean'), 'w').write(q)
        open(os.path.join(gdir, 'ParamGenR.lean'), 'w').write(r)
        p = subprocess.run(['lake', 'build'] + mods, cwd=os.path.join(V, 'lean'), stdout=subprocess.PIPE, stderr=subprocess.STDOUT, text=True)
        first = [l for l in p.stdout.splitlines() if 'error:' in l][:1]
        if p.returncode == 0:
            print('%-55s: accepted by the translator, theorems STILL HOLD  <-- not detected by the proofs' % name)
            bad += 1
        else:
            print('%-55s: accepted by the translator, build fails (%s)' % (name, (first[0].split('error:')[1].strip()[:60] if first else '?')))
finally:
    for f, t in orig.items():
        open(os.path.join(gdir, f), 'w').write(t)
    subprocess.run(['lake', 'build'] + mods, cwd=os.path.join(V, 'lean'), stdout=subprocess.DEVNULL, stderr=subprocess.DEVNULL)
print('undetected / unexpected: %d' % bad)
