#!/bin/bash
# Sanity of the initial_potential.py translator package (brief B9, part D): runs ./check C08 --tier quick against mutated
# scratch copies of the code under verification and prints what breaks.  usage: tools/initpot_sanity.sh <dir with m1..mN> <clean repo>
V=$(cd "$(dirname "$0")/.." && pwd)
for d in "$1"/m*/; do
  d=${d%/}
  echo "=== $(basename $d)"
  # start every run from the files generated from the clean tree (a failing translator leaves the previous file in place)
  (cd $V && /venv/bin/python translate/initpotgen.py "$2" > /dev/null)
  (cd $V && STBEM_REPO=$d timeout 3000 ./check C08 --tier quick > "$d.log" 2>&1)
  cp $V/evidence/C08.json "$d.evidence.json"
  /venv/bin/python - "$d" <<'PY'
import json, re, sys, collections
d = sys.argv[1]
ev = json.load(open(d + '.evidence.json'))['coverage']
for b in ev.get('broken', []):
    print('  BROKEN  %s :: %s' % (b['what'][:150], ' '.join(b['detail'].split())[:200]))
keys = collections.Counter(re.sub(r'_\d+\.json.*', '', l.split('replays/')[-1]) for l in open(d + '.log') if l.startswith('VIOLATION'))
for k, n in keys.items():
    print('  VIOLATION x%d  %s' % (n, k))
print('  ' + [l.strip() for l in open(d + '.log') if l.startswith('C08 ')][-1])
PY
done
echo "=== restore (clean tree)"
(cd $V && STBEM_REPO=$2 ./check C08 --tier quick 2>&1 | tail -1)
