#!/bin/bash
# usage: tools/merge_pkg.sh <pkg-dir> <base-commit>   -- 3-way merge of a builder's private copy into /verif
PKG=$1; BASE=$2
cd $PKG
for f in $(find . -type f \( -name "*.py" -o -name "*.lean" -o -name "*.json" -o -name "*.sh" -o -name "*.md" -o -name "*.toml" \) -not -path "./lean/.lake/*" -not -path "./evidence/*" -not -path "./seeded/*" -not -path "./replays/*" -not -name BRIEF.md -not -name COMMON.md); do
  g=${f#./}
  if ! git -C /verif cat-file -e $BASE:$g 2>/dev/null; then
    if [ -e /verif/$g ]; then if cmp -s $f /verif/$g; then :; else echo "NEW-BOTH(conflict?) $g"; fi; else mkdir -p /verif/$(dirname $g); cp $f /verif/$g; echo "NEW $g"; fi
  elif ! git -C /verif show $BASE:$g | cmp -s - $f; then
    if git -C /verif show $BASE:$g | cmp -s - /verif/$g; then cp $f /verif/$g; echo "CHG(theirs) $g";
    else
      git -C /verif show $BASE:$g > /tmp/merge_base.$$; cp /verif/$g /tmp/merge_mine.$$
      if git merge-file -q /tmp/merge_mine.$$ /tmp/merge_base.$$ $f; then cp /tmp/merge_mine.$$ /verif/$g; echo "MERGED $g"; else cp /tmp/merge_mine.$$ /verif/$g.merge; echo "CONFLICT $g (see $g.merge)"; fi
      rm -f /tmp/merge_base.$$ /tmp/merge_mine.$$
    fi
  fi
done
