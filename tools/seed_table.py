#!/usr/bin/env python3
"""Regenerates the table of DESIGN.md §12 (between the seeded-table markers) from seeded/*/meta.json."""
import glob
import json
import os
import re

V = os.path.dirname(os.path.dirname(os.path.abspath(__file__)))
rows = []
for mf in sorted(glob.glob(os.path.join(V, 'seeded', '*', 'meta.json'))):
    m = json.load(open(mf))
    name = os.path.basename(os.path.dirname(mf))
    res = m.get('check_results') or ''
    parts = []
    for tok in re.findall(r'(C\d\d):rc=(\d):\[([^\]]*)\](:no-failing-input-found)?', res):
        cid, rc, keys, nf = tok
        if rc == '0':
            parts.append('%s: held' % cid)
            continue
        ks = []
        for k in keys.split():
            k = re.sub(r'\(x\d+\)$', '', k)
            k = re.sub(r'^C\d\d_(C\d\dH?_)?', '', k).replace('_', ' ')
            ks.append(k)
        parts.append('**%s**: %s%s' % (cid, ', '.join(ks[:2]) or 'violation', ' (no-failing-input-found)' if nf else ''))
    summ = (m.get('summary') or '').replace('|', '/').replace('\n', ' ')
    rows.append('| `%s` | %s | %s | %s |' % (name, m.get('breaks_property'), summ[:200], '; '.join(parts)))
table = ['| seeded change | breaks | what was changed | checks run against it (quick tier) |', '|---|---|---|---|'] + rows
p = os.path.join(V, 'DESIGN.md')
s = open(p).read()
a, b = s.index('<!-- seeded-table-begin -->'), s.index('<!-- seeded-table-end -->')
s = s[:a] + '<!-- seeded-table-begin -->\n' + '\n'.join(table) + '\n' + s[b:]
open(p, 'w').write(s)
print('%d rows' % len(rows))
