#!/bin/bash
# usage: tools/seed_confirm.sh <seed-name> <dir-with-patch.diff-demo.py-meta.json>
# Confirms a seeded change in a scratch worktree of /repo HEAD: patch applies, demo fails with / passes without,
# the stable test files still pass with the change.  Writes /verif/seeded/<seed-name>/{patch.diff,demo.py,confirm.json,*.log}.
set -u
NAME=$1; SRC=$2
OUT=/verif/seeded/$NAME
mkdir -p $OUT
cp $SRC/patch.diff $OUT/patch.diff; cp $SRC/demo.py $OUT/demo.py; cp $SRC/meta.json $OUT/meta.orig.json 2>/dev/null
WT=/tmp/seedeval/$NAME
rm -rf $WT; git -C /repo worktree add -q $WT HEAD || exit 3
cd $WT
if ! git apply --3way $OUT/patch.diff 2>$OUT/apply.log; then echo "$NAME: PATCH DOES NOT APPLY"; git -C /repo worktree remove --force $WT; exit 4; fi
git reset -q; git diff > $OUT/patch.diff
PYTHONPATH=$WT timeout 900 /venv/bin/python $OUT/demo.py > $OUT/demo_with.log 2>&1; DW=$?
timeout 1500 /venv/bin/python -m pytest -q -p no:cacheprovider --timeout=900 src/mesh_test.py src/quadrature_test.py src/norms_test.py src/error_estimator_test.py src/h_h2_error_estimator_test.py src/initial_mesh_test.py src/parametrization_test.py src/initial_potential_test.py -k "not quadpy and not potential_circle and not potential_evaluate" > $OUT/pytest_with.log 2>&1; PT=$?
FILES=$(git diff --name-only | tr '\n' ' ')
git apply -R $OUT/patch.diff
PYTHONPATH=$WT timeout 900 /venv/bin/python $OUT/demo.py > $OUT/demo_without.log 2>&1; DWO=$?
cd /verif; git -C /repo worktree remove --force $WT
echo "{\"demo_exit_with_change\": $DW, \"demo_exit_without_change\": $DWO, \"pytest_exit_with_change\": $PT, \"pytest_summary\": \"$(tail -1 $OUT/pytest_with.log | tr -d '\"')\", \"files_changed\": \"$FILES\"}" > $OUT/confirm.json
echo "$NAME: demo with=$DW without=$DWO pytest=$PT"
