#!/bin/bash
# usage: tools/seed_round.sh <property> <worktree-with-_seed> <suffix> "<checks>"
# derives the seed name from meta.json/slug, confirms it (scratch worktree), runs the checks against /repo, reverts.
set -u
PID=$1; WT=$2; SLUG=$3; CHECKS=$4
NAME=$PID-${ROUND:-r4}-$SLUG
cd /verif
tools/seed_confirm.sh $NAME $WT/_seed || exit 1
python3 - $NAME <<'PY'
import json,sys
c=json.load(open('/verif/seeded/%s/confirm.json'%sys.argv[1]))
ok = c['demo_exit_with_change']!=0 and c['demo_exit_without_change']==0 and c['pytest_exit_with_change']==0
print('CONFIRMED' if ok else 'NOT-CONFIRMED', c)
sys.exit(0 if ok else 1)
PY
[ $? -eq 0 ] || exit 2
tools/seed_check.sh $NAME "$CHECKS" quick
