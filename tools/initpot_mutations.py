#!/venv/bin/python
"""Sensitivity test of translate/initpotgen.py + Props/InitPotTie.lean (development tool, not part of ./check).

Applies mutations to a scratch copy of the repository under test (STBEM_REPO; never edited): for each one either the
translator rejects the text (TranslationError = broken obligation) or `lake build` of the equality theorems must FAIL.  The
generated file is restored at the end.  Usage: STBEM_REPO=<checkout> /venv/bin/python tools/initpot_mutations.py [substring of the mutation names to run]"""
import os, shutil, subprocess, sys, tempfile
V = os.path.dirname(os.path.dirname(os.path.abspath(__file__)))
REPO0 = os.environ.get('STBEM_REPO', '/repo')
F = 'src/initial_potential.py'
MUTS = [
 ('ctor: symmetric_xy=True', 'symmetric_xy=False', 'symmetric_xy=True'),
 ('ctor: touch rule built like the identical rule', 'self.duff_3d_touch = DuffySchemeTouch3D(\n            ProductScheme3D(self.log_scheme))', 'self.duff_3d_touch = DuffySchemeIdentical3D(\n            ProductScheme3D(self.log_scheme), symmetric_xy=False)'),
 ('identical: Jacobian h**2', 'val = h**3 * np.dot(', 'val = h**2 * np.dot('),
 ('identical: kernel argument without h**2', 'G_time(\n                    h**2 * ((xyz[0] - xyz[1])**2 + xyz[2]**2))', 'G_time(\n                    ((xyz[0] - xyz[1])**2 + xyz[2]**2))'),
 ('identical: u0 at (x, y) instead of (x, z)', 'self.u0(gamma_Q(xyz[0], xyz[2])) * G_time(', 'self.u0(gamma_Q(xyz[0], xyz[1])) * G_time('),
 ('identical: third vertex from v1', 'tmp = [v for v in elem.connected_to_vertex(v0) if v is not v1]', 'tmp = [v for v in elem.connected_to_vertex(v1) if v is not v0]'),
 ('identical: no continue (falls into the touching case)', '                ips.append((elem, val))\n                continue\n', '                ips.append((elem, val))\n'),
 ('identical: test with `or`', 'if v0 in elem.vertices and v1 in elem.vertices:', 'if v0 in elem.vertices or v1 in elem.vertices:'),
 ('touch at v0: neighbours of v1', 'n2, n3 = [v.xy_np for v in elem.connected_to_vertex(v0)]', 'n2, n3 = [v.xy_np for v in elem.connected_to_vertex(v1)]'),
 ('touch at v1: gamma_K from n0', 'gamma_K = lambda y: n1 + (n0 - n1) * y', 'gamma_K = lambda y: n0 + (n1 - n0) * y'),
 ('touch at v1: gamma_K outward', 'gamma_K = lambda y: n1 + (n0 - n1) * y', 'gamma_K = lambda y: n1 + (n1 - n0) * y'),
 ('touch at v1: n2, n3 swapped in gamma_Q (value-preserving)', 'gamma_Q = lambda x, z: n1 + (n2 - n1) * x + (n3 - n1) * z', 'gamma_Q = lambda x, z: n1 + (n3 - n1) * x + (n2 - n1) * z'),
 ('touch: origin assertion dropped', '                assert np.all(gamma_Q(0, 0) == gamma_K(0))\n\n            elif', '\n            elif'),
 ('far: rule of the identical cell', 'xyz = self.duff_3d_touch.points', 'xyz = self.duff_3d_id.points'),
 ('inline kernel: y from x-coordinate of the rule', 'y = gamma_K(xyz[1])', 'y = gamma_K(xyz[0])'),
 ('inline kernel: branch on b', '            if a == 0:\n                fx', '            if b == 0:\n                fx'),
 ('inline kernel: sign of the second term', 'exp1(xz_y / (4 * b)) - exp1(xz_y /\n', 'exp1(xz_y / (4 * b)) + exp1(xz_y /\n'),
 ('inline kernel: 2 b', 'fx = self.u0(xz) * exp1(xz_y / (4 * b))\n', 'fx = self.u0(xz) * exp1(xz_y / (2 * b))\n'),
 ('inline kernel: distance unsquared', 'xz_y = (xz - y)**2\n', 'xz_y = (xz - y)\n'),
 ('touch: factor diam instead of diam**2', 'val = elem.diam**2 * (d - c) * FPI_INV', 'val = elem.diam * (d - c) * FPI_INV'),
 ('touch: FPI_INV dropped', 'val = elem.diam**2 * (d - c) * FPI_INV * np.dot(', 'val = elem.diam**2 * (d - c) * np.dot('),
 ('touch: weights of the identical rule', 'fx, self.duff_3d_touch.weights)', 'fx, self.duff_3d_id.weights)'),
 ('filter val > 0', '            ips.append((elem, val))\n\n        assert id_bdr == 1', '            if val > 0:\n                ips.append((elem, val))\n\n        assert id_bdr == 1'),
 ('assert id_bdr >= 1', 'assert id_bdr == 1', 'assert id_bdr >= 1'),
 ('assert id_bdr dropped', '        assert id_bdr == 1\n', ''),
 ('vertex of gamma(d) looked up twice', 'v0 = initial_mesh.vertex_from_coords(elem_trial.gamma_space(c))', 'v0 = initial_mesh.vertex_from_coords(elem_trial.gamma_space(d))'),
 ('mesh requested for (d, c)', 'initial_mesh = self.initial_mesh(elem_trial.gamma_space(c),\n                                         elem_trial.gamma_space(d))', 'initial_mesh = self.initial_mesh(elem_trial.gamma_space(d),\n                                         elem_trial.gamma_space(c))'),
 ('return sum of absolute values', 'return math.fsum([val for elem, val in ips]), ips', 'return math.fsum([abs(val) for elem, val in ips]), ips'),
 ('late-binding: n2 reassigned after the lambda', '                f = lambda xyz: self.u0(gamma_Q', '                n2 = n1\n                f = lambda xyz: self.u0(gamma_Q'),
 ('vector: first component replaced', 'vec[j], _ = self.linform(elem_trial)', '_, vec[j] = self.linform(elem_trial)'),
 ('worker: element j + 1', 'return __M0.linform(__elems[j])[0]', 'return __M0.linform(__elems[j + 1])[0]'),
 ('evaluate: 2 pi t', 'def f(y):\n            xy = x - y\n            xy_sqr = np.sum(xy**2, axis=0)\n            return 1. / (4 * np.pi * t) * np.exp(-xy_sqr /\n                                                 (4 * t)) * self.u0(y)\n\n        #if', 'def f(y):\n            xy = x - y\n            xy_sqr = np.sum(xy**2, axis=0)\n            return 1. / (2 * np.pi * t) * np.exp(-xy_sqr /\n                                                 (4 * t)) * self.u0(y)\n\n        #if'),
 ('evaluate_mesh: x-range to vertex 1 (same abscissa: value-preserving)', "float(elem.vertices[2].x),\n                                          float(elem.vertices[0].y)", "float(elem.vertices[1].x),\n                                          float(elem.vertices[0].y)"),
 ('evaluate_mesh: y-range to vertex 1', "float(elem.vertices[2].y))", "float(elem.vertices[1].y))"),
 # --- src/initial_mesh.py (the members of Element, the domain meshes and the factories the translator also reads)
 ('Element.gamma through vertex 2', "        n3 = self.vertices[3].xy_np\n", "        n3 = self.vertices[2].xy_np\n", 'src/initial_mesh.py'),
 ('Element.connected_to_vertex: or instead of ^', "(vtx.x == vertex.x) ^ (vtx.y == vertex.y)", "(vtx.x == vertex.x) or (vtx.y == vertex.y)", 'src/initial_mesh.py'),
 ('Element.connected_to_vertex: membership assertion dropped', "        assert vertex in self.vertices\n", "", 'src/initial_mesh.py'),
 ('Element.diam from the ordinates', "return self.vertices[1].x - self.vertices[0].x", "return self.vertices[1].y - self.vertices[0].y", 'src/initial_mesh.py'),
 ('LShape: order of the roots', "elements=[(1, 2, 3, 0), (0, 3, 4, 5), (7, 0, 5, 6)]", "elements=[(0, 3, 4, 5), (1, 2, 3, 0), (7, 0, 5, 6)]", 'src/initial_mesh.py'),
 ('UnitSquare: half the side', "vertices=[(0, 0), (1, 0), (1, 1), (0, 1)]", "vertices=[(0, 0), (2, 0), (2, 2), (0, 2)]", 'src/initial_mesh.py'),
 ('UnitSquareBoundaryRefined builds the L-shape', "def UnitSquareBoundaryRefined(v0, v1):\n    mesh = UnitSquare()", "def UnitSquareBoundaryRefined(v0, v1):\n    mesh = LShape()", 'src/initial_mesh.py'),
 ('LShapeBoundaryRefined: arguments exchanged', "    mesh = LShape()\n    mesh.refine_msh_bdr(v0, v1)", "    mesh = LShape()\n    mesh.refine_msh_bdr(v1, v0)", 'src/initial_mesh.py'),
]
repo = os.path.join(tempfile.mkdtemp(prefix='initpot_mut_'), 'repo')
FILES = [F, 'src/initial_mesh.py']
SRC = {f: open(os.path.join(REPO0, f)).read() for f in FILES}
sys.path.insert(0, os.path.join(V, 'translate'))
import initpotgen
mods = ['Stbem.Props.InitPotTie']
gen = os.path.join(V, 'lean/Stbem/Gen/InitPotGen.lean')
orig, _ = initpotgen.generate_text(REPO0)
for mut in MUTS:
    name, a, b = mut[:3]
    mf = mut[3] if len(mut) > 3 else F
    if len(sys.argv) > 1 and sys.argv[1] not in name:
        continue
    if SRC[mf].count(a) != 1:
        print('%-58s: PATTERN NOT FOUND ONCE (%d)' % (name, SRC[mf].count(a)))
        continue
    shutil.rmtree(repo, ignore_errors=True)
    os.makedirs(os.path.join(repo, 'src'))
    for f in FILES:
        open(os.path.join(repo, f), 'w').write(SRC[f].replace(a, b) if f == mf else SRC[f])
    try:
        text, _ = initpotgen.generate_text(repo)
    except initpotgen.TranslationError as e:
        print('%-58s: translator rejects: %s' % (name, ' '.join(str(e).split())[:110]))
        continue
    if text == orig:
        print('%-58s: generated text UNCHANGED (!!)' % name)
        continue
    open(gen, 'w').write(text)
    p = subprocess.run(['lake', 'build'] + mods, cwd=os.path.join(V, 'lean'), stdout=subprocess.PIPE, stderr=subprocess.STDOUT, text=True)
    errs = [l for l in p.stdout.splitlines() if l.startswith('error:') and '.lean:' in l]
    print('%-58s: build rc=%d %s' % (name, p.returncode, ' | '.join(sorted({e.split(':')[1].strip().split('/')[-1] + ':' + e.split(':')[2] for e in errs}))[:120]))
open(gen, 'w').write(orig)
shutil.rmtree(os.path.dirname(repo), ignore_errors=True)
p = subprocess.run(['lake', 'build'] + mods + ['stbem-driver'], cwd=os.path.join(V, 'lean'), stdout=subprocess.PIPE, stderr=subprocess.STDOUT, text=True)
print('restored; build rc=%d' % p.returncode)
