#!/venv/bin/python
"""Sensitivity test of translate/estimgen.py + Props/EstimTie.lean (development tool, not part of ./check).

Applies in-fragment mutations to a scratch copy of the repository under test (STBEM_REPO, default /repo; never edited):
for each one the translator must accept the text and `lake build Stbem.Props.EstimTie` must FAIL (the last entry is a
harmless renaming: the build must still succeed).  Gen/Consts.lean is NOT regenerated, so that what is measured is the tie
between the regenerated control flow and the hand model alone.  The generated file is restored at the end.
Usage: STBEM_REPO=<checkout> /venv/bin/python tools/estimgen_mutations.py"""
import os, shutil, subprocess, sys, tempfile
V = os.path.dirname(os.path.dirname(os.path.abspath(__file__)))
REPO0 = os.environ.get('STBEM_REPO', '/repo')
H, H2 = 'src/hierarchical_error_estimator.py', 'src/h_h2_error_estimator.py'
MUTS = [
 ('children 1 and 2 swapped', H, "                DummyElement(vertices=[v01, v1, v12, vi], gamma_space=gamma),\n                DummyElement(vertices=[v30, vi, v23, v3], gamma_space=gamma),\n", "                DummyElement(vertices=[v30, vi, v23, v3], gamma_space=gamma),\n                DummyElement(vertices=[v01, v1, v12, vi], gamma_space=gamma),\n", True),
 ('sign flipped in the checkerboard pattern', H, '[1, -1, -1, 1]]', '[1, -1, 1, 1]]', True),
 ('repeat factor 2', H2, 'np.repeat(Phi, 4)', 'np.repeat(Phi, 2)', True),
 ('sharing factor 0.25', H, 'estim_loc[1] + 0.5 * estim_loc[2]', 'estim_loc[1] + 0.25 * estim_loc[2]', True),
 ('rhs += M0', H, 'rhs -= self.M0', 'rhs += self.M0', True),
 ('hh2: rhs -= g', H2, 'rhs += self.g(elems_fine)', 'rhs -= self.g(elems_fine)', True),
 ('use_mp dropped in the hierarchical matrix', H, 'elems_trial=elems_coarse,\n                                     use_mp=True)', 'elems_trial=elems_coarse)', True),
 ('test / trial swapped', H, 'elems_test=elems_fine,\n                                     elems_trial=elems_coarse', 'elems_test=elems_coarse,\n                                     elems_trial=elems_fine', True),
 ('block of element 0 for every element', H, 'S = self.SL.bilform_matrix(elem_2_children[i], elem_2_children[i])', 'S = self.SL.bilform_matrix(elem_2_children[0], elem_2_children[0])', True),
 ('V_estim sums rhs', H, 'V_estim += VPhi[j] * c', 'V_estim += rhs[j] * c', True),
 ('assert >= 0', H, 'assert scaling_estim > 0', 'assert scaling_estim >= 0', True),
 ('residual form (seeded C20-r4)', H2, 'diff = Phi_fine - Phi_prolong\n        return np.sqrt(diff.T @ mat_fine @ diff)', 'residual = rhs - mat_fine @ Phi_prolong\n        return np.sqrt(max(Phi_fine @ residual, 0.0))', True),
 ('midpoint vi from v0, v1 in x', H, 'vi = Vertex(t=(v0.t + v2.t) / 2, x=(v0.x + v2.x) / 2', 'vi = Vertex(t=(v0.t + v2.t) / 2, x=(v0.x + v1.x) / 2', True),
 ('time_interval from vertices 0, 1', H, 'self.time_interval = self.vertices[0].t, self.vertices[2].t', 'self.time_interval = self.vertices[0].t, self.vertices[1].t', True),
 ('harmless: local variable renamed', H2, 'diff', 'delta', False),
]
sys.path.insert(0, os.path.join(V, 'translate'))
tmp = tempfile.mkdtemp(prefix='estimgen_mut_')
repo = os.path.join(tmp, 'repo')
gen = os.path.join(V, 'lean/Stbem/Gen/EstimGen.lean')
orig = open(gen).read()
bad = 0
try:
    for name, f, a, b, must_break in MUTS:
        src0 = open(os.path.join(REPO0, f)).read()
        if a not in src0:
            print('%-48s: PATTERN NOT FOUND' % name)
            bad += 1
            continue
        shutil.rmtree(repo, ignore_errors=True)
        shutil.copytree(REPO0, repo, ignore=shutil.ignore_patterns('.git', '__pycache__', '*.npy'))
        open(os.path.join(repo, f), 'w').write(src0.replace(a, b))
        r = subprocess.run(['/venv/bin/python', os.path.join(V, 'translate/estimgen.py'), repo], capture_output=True, text=True)
        if r.returncode != 0:
            print('%-48s: TRANSLATOR REJECTS: %s' % (name, r.stderr.strip().splitlines()[-1][:120]))
            bad += 1
            continue
        p = subprocess.run(['lake', 'build', 'Stbem.Props.EstimTie'], cwd=os.path.join(V, 'lean'), capture_output=True, text=True)
        errs = [l.split(': ', 1)[1][:70] for l in p.stdout.splitlines() if l.startswith('error: Stbem')]
        broke = p.returncode != 0
        print('%-48s: accepted; tie %s%s' % (name, 'BREAKS at ' + errs[0].split(':')[0] + ':' + errs[0].split(':')[1] if broke else 'still holds',
                                          '' if broke == must_break else '   <-- UNEXPECTED'))
        bad += broke != must_break
finally:
    open(gen, 'w').write(orig)
    subprocess.run(['lake', 'build', 'Stbem.Props.EstimTie', 'stbem-driver'], cwd=os.path.join(V, 'lean'), capture_output=True, text=True)
    shutil.rmtree(tmp, ignore_errors=True)
print('%d mutation(s) with an unexpected outcome' % bad)
sys.exit(1 if bad else 0)
