#!/bin/bash
# usage: tools/seed_eval.sh <seed-name> <dir-with-patch.diff-demo.py-meta.json> "<checks to run>" [tier]
# Confirms a seeded change in a scratch worktree (demo fails with / passes without, test-suite still passes), then
# applies it to /repo, runs the listed checks, and reverts /repo.  Results are stored under /verif/seeded/<seed-name>/.
set -u
NAME=$1; SRC=$2; CHECKS=$3; TIER=${4:-quick}
OUT=/verif/seeded/$NAME
mkdir -p $OUT
cp $SRC/patch.diff $OUT/patch.diff; cp $SRC/demo.py $OUT/demo.py; cp $SRC/meta.json $OUT/meta.orig.json 2>/dev/null
WT=/tmp/seedeval/$NAME
rm -rf $WT; git -C /repo worktree prune; git -C /repo worktree add -q $WT HEAD || exit 3
cd $WT
if ! git apply --3way $OUT/patch.diff 2>$OUT/apply.log; then echo "PATCH DOES NOT APPLY"; cat $OUT/apply.log; git -C /repo worktree remove --force $WT; exit 4; fi
git reset -q   # 3way stages; keep working tree only
git diff > $OUT/patch.diff
PYTHONPATH=$WT /venv/bin/python $OUT/demo.py > $OUT/demo_with.log 2>&1; DW=$?
FILES=$(git diff --name-only | grep -v _test | tr '\n' ' ')
/venv/bin/python -m pytest -q -p no:cacheprovider --timeout=900 src/mesh_test.py src/quadrature_test.py src/norms_test.py src/error_estimator_test.py src/h_h2_error_estimator_test.py src/initial_mesh_test.py src/parametrization_test.py src/initial_potential_test.py -k "not quadpy and not potential_circle and not potential_evaluate" > $OUT/pytest_with.log 2>&1; PT=$?
git apply -R $OUT/patch.diff
PYTHONPATH=$WT /venv/bin/python $OUT/demo.py > $OUT/demo_without.log 2>&1; DWO=$?
cd /verif; git -C /repo worktree remove --force $WT
echo "demo with change: exit $DW; without: exit $DWO; pytest with change: exit $PT ($(tail -1 $OUT/pytest_with.log))"
# now the checks against /repo itself
git -C /repo apply $OUT/patch.diff || { echo "cannot apply to /repo"; exit 5; }
RES=""
for c in $CHECKS; do
  ./check $c --tier $TIER > $OUT/check_$c.log 2>&1; rc=$?
  RES="$RES $c:rc=$rc:$(grep -c '^VIOLATION' $OUT/check_$c.log)viol"
  grep '^VIOLATION' $OUT/check_$c.log | head -3
done
git -C /repo checkout -- . ; git -C /repo status --short | head -3
echo "checks:$RES"
python3 - "$NAME" "$DW" "$DWO" "$PT" "$RES" "$FILES" <<'PY'
import json, sys, os
name, dw, dwo, pt, res, files = sys.argv[1:7]
out='/verif/seeded/%s' % name
try: orig=json.load(open(out+'/meta.orig.json'))
except Exception: orig={}
meta=dict(seed=name, breaks_property=orig.get('property'), summary=orig.get('summary'), needs=orig.get('needs'),
          files_changed=files.split(), confirmed=dict(demo_exit_with_change=int(dw), demo_exit_without_change=int(dwo), pytest_exit_with_change=int(pt)),
          ran='tools/seed_eval.sh: scratch worktree of /repo HEAD, git apply, demo.py with/without, pytest stable files; then git -C /repo apply, ./check <ids>, git -C /repo checkout -- .',
          check_results=res.strip())
json.dump(meta, open(out+'/meta.json','w'), indent=1)
PY
rm -f $OUT/meta.orig.json
